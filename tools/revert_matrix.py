#!/usr/bin/env python3
"""Development aid: for every `fixed:` entry of known_findings.json, undo that fix commit in a scratch worktree and run the owning
check there (EAO_REPO) -- a fixed entry suppresses nothing, the violation must be reported again. Writes /verif/seeded/reverts.json."""
import json, os, re, subprocess, sys, shutil, tempfile, concurrent.futures as cf
kf = json.load(open('/verif/known_findings.json'))['findings']
tier = os.environ.get('VERIF_TIER', 'quick')
ALSO = {'F01': ['C12'], 'F09': ['C09'], 'F12': ['C13'], 'F14': ['C09', 'C20', 'C04'], 'F15': ['C13'], 'F16': ['C19'], 'F24': ['C08'], 'F26': ['C14'], 'F28': ['C07']}

def run(entry):
    m = re.match(r'fixed: property=(C\d+) ([0-9a-f]+) ', entry['fixed'])
    prop, commit = m.group(1), m.group(2)
    wt = tempfile.mkdtemp(prefix='rv_%s_' % entry['id'], dir='/tmp'); os.rmdir(wt)
    out = dict(id=entry['id'], commit=commit, results={})
    try:
        subprocess.run(['git', '-C', '/repo', 'worktree', 'add', '-q', '--detach', wt, 'HEAD'], check=True)
        d = subprocess.run(['git', '-C', '/repo', 'diff', commit, commit + '~1'], capture_output=True, text=True).stdout
        r = subprocess.run(['git', '-C', wt, 'apply', '--3way'], input=d, capture_output=True, text=True)
        if r.returncode != 0:
            out['error'] = 'revert does not apply cleanly on HEAD: ' + r.stderr[:160]
            return out
        for p in [prop] + ALSO.get(entry['id'], []):
            env = dict(os.environ, EAO_REPO=wt, VERIF_EVIDENCE_DIR=os.path.join(wt, '.evidence'), VERIF_REPLAY_DIR=os.path.join(wt, '.replays'), VERIF_JOBS='8')
            c = subprocess.run(['/verif/check', p, '--tier', tier], capture_output=True, text=True, env=env)
            lines = [l for l in c.stdout.splitlines() if l.startswith(('  violated', 'INCONCL', 'UNCONF', 'HARNESS', 'SHIM'))]
            out['results'][p] = dict(exit=c.returncode, first=lines[:1])
    finally:
        subprocess.run(['git', '-C', '/repo', 'worktree', 'remove', '--force', wt], capture_output=True)
        shutil.rmtree(wt, ignore_errors=True)
    return out

todo = [e for e in kf if e.get('status') == 'fixed' and (not sys.argv[1:] or e['id'] in sys.argv[1:])]
res = []
with cf.ThreadPoolExecutor(int(os.environ.get('MATRIX_JOBS', '3'))) as ex:
    for o in ex.map(run, todo):
        print(o['id'], o['commit'], o.get('error', ''), {k: v['exit'] for k, v in o['results'].items()}, flush=True)
        res.append(o)
if not sys.argv[1:]:
    json.dump(res, open('/verif/seeded/reverts.json', 'w'), indent=1)
