#!/bin/bash
# Development aid: run one check (optionally --only <substr>) against a seeded change in a scratch worktree; /repo is not touched.
# usage: tryseed.sh <seed id> <prop> [extra ./check args...]
id=$1; prop=$2; shift 2
wt=$(mktemp -d /tmp/ts_${id}_XXXX); rmdir $wt
git -C /repo worktree add -q --detach $wt HEAD || exit 2
git -C $wt apply /verif/seeded/$id/patch.diff || { echo "patch does not apply"; git -C /repo worktree remove --force $wt; exit 2; }
EAO_REPO=$wt VERIF_EVIDENCE_DIR=$wt/.evidence VERIF_REPLAY_DIR=$wt/.replays /verif/check $prop "$@" 2>$wt/.stderr | grep -v "^$" | cut -c1-400 | tail -25
echo "exit=${PIPESTATUS[0]}"; tail -5 $wt/.stderr | cut -c1-300
git -C /repo worktree remove --force $wt
