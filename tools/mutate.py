#!/usr/bin/env python3
"""Development aid (not a registered check): apply a one-line edit or a patch file to /repo, run checks, always restore.
usage: mutate.py --edit FILE 'old' 'new' -- C01 C04        |   mutate.py --patch P.diff -- C05
"""
import subprocess, sys, os
args = sys.argv[1:]
sep = args.index('--')
spec, props = args[:sep], args[sep + 1:]
tier = os.environ.get('VERIF_TIER', 'quick')
def restore():
    subprocess.run(['git', '-C', '/repo', 'checkout', '--', '.'], check=True)
try:
    if spec[0] == '--edit':
        f, old, new = spec[1], spec[2], spec[3]
        p = os.path.join('/repo', f); s = open(p).read()
        assert s.count(old) >= 1, 'pattern not found'
        open(p, 'w').write(s.replace(old, new, 1))
    else:
        subprocess.run(['git', '-C', '/repo', 'apply', spec[1]], check=True)
    for pr in props:
        r = subprocess.run(['/verif/check', pr, '--tier', tier], capture_output=True, text=True)
        lines = [l for l in r.stdout.splitlines() if l.startswith(('VIOLATION', 'KNOWN', 'HARNESS', 'INCONCL', 'SHIM', 'UNCONF', '  violated')) or ' OK' in l]
        print(pr, 'exit', r.returncode); print('\n'.join(lines[:12]))
finally:
    restore()
