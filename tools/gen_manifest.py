#!/usr/bin/env python3
"""Regenerates MANIFEST.json from the table below (development aid; MANIFEST.json itself is committed)."""
import json, os
ROOT = os.path.dirname(os.path.dirname(os.path.abspath(__file__)))
BASE = "cd /repo && /venv/bin/python -m pytest -ra -q -p no:cacheprovider --timeout=900 --continue-on-collection-errors"
TECH = 'SMT (z3) over lifted symbolic execution of the real set-up/output code; '
NOTE = ('Some cases are decided by the machinery of another property\'s module (delegated cases, DESIGN 2.2: solver recorder of C03, history machinery of C10, periodic mapping of C07) and reported by this check. Trusted: z3 5.1 (cvc5 cross-check on samples in the thorough tier), CPython/numpy object-dtype loops, pandas for structure, '
        'the shims of DESIGN 2.2 (validated against the unshimmed code on every run), the LP semantics F (vf/lpsem.py). '
        'Exact real arithmetic (floats read as rationals); structure ranges over the stated catalogue only. ')
CHECKS = {
 'C01': ('Q1 invariant over all feasible x: reported dispatch of every node/step nets to zero', '6 C01',
         'For every catalogue shape and every feasible set-up path, unsat of "F(x) and node sum != 0" covers all parameter values, prices and all feasible solution vectors (hence every optimum any solver may return); bounded in structure (T<=8, <=3 nodes, <=5 assets).'),

 'C04': ('Q2 identities over symbolic parameters, prices and an arbitrary solution vector: sum of the real DCF table == -c.x, per asset == -c.x over the asset\'s own variable block', '6 C04',
         'The accounting identities are decided for all parameter values, prices and ALL vectors x (not only optima) on every catalogue shape incl. split, periodic, coarse, scaled, structured, order book; asset blocks come from the recorded order/sizes of the assets\' own set-up calls, not from the mapping.'),
 'C07': ('structural comparison + Q2 term identities + Q1 (l<=u) between the assembled problem and the assets\' own problems, nodal-row bijection', '6 C07',
         'For every catalogue shape and feasible set-up path: every entry of c,l,u,A,b of the assembled problem equals the owning asset\'s own entry as a term (for all parameter values), mapping rows equal the asset\'s own rows at offset positions, unmapped variables are inert, l<=u under the documented domain, nodal rows are in bijection with (node, step) pairs and carry the summed dispatch factors.'),

 'C05': ('Q1 invariants over all feasible x against physical charge/discharge/level terms defined from the variables\' meaning; reporting identities through the real extract_output / Storage.fill_level', '6 C05',
         'For every storage configuration of the catalogue (one/two nodes, efficiency, inflow, windows, 30-min/day-unit grid, no_simult_in_out, max_store_duration, block_size, coarse freq) embedded in a portfolio: level bounds, end level, rates, no-simultaneous, holding-time windows and truthful reporting hold for ALL feasible points and all parameter values; one open known finding (KF-C05-msd) is enforced outside its trigger region.'),

 'C06': ('Q4 (exists/forall) projection of the real rows onto the on/off booleans vs a docstring Spec, both directions; Q1 invariants for capacity/ramp/profile/heat/fuel/start flags over all feasible points', '6 C06',
         'The admissible on/off patterns are decided to be EXACTLY those of the runtime/downtime/initial-state specification for all 2^T patterns symbolically (T<=7) and all capacities; capacity, ramp (incl. first step), profile, heat-share, start-flag and fuel-reporting statements hold for all feasible points and all symbolic parameters.'),

 'C02': ('Q3 two-way embeddings (row-wise SMT queries) between the lifted EAO problem and an independent reference model over physical variables', '6 C02',
         'opt(EAO) = opt(reference) for ALL parameter values, prices, take volumes and discount rates of every catalogue shape, decided without solving an LP: every EAO-feasible point maps to a reference-feasible point of at least the same value and vice versa; the first half also shows every dispatch EAO can return is feasible for the reference. Efficiencies/factors are generic concrete rationals at Level A, symbolic in the thorough *_B shapes.'),

 'C08': ('Q2 (reported dispatch outside the window is identically 0), Q3 two-way embeddings with/without an element outside the horizon, Q3 against the reference for take-period placements', '6 C08',
         'For every asset class (incl. Plant/CHP, coarse, scaled, order book) placed before/after the horizon, orders before/between/after live orders and take periods in 7 placements: with and without the element the problems have the same feasible set up to inert variables, the same value and the same reported dispatch, for all parameter values and prices; one open known finding (KF-C08-scaledwin).'),
 'C20': ('Q3 two-way embeddings against an independent one-variable-per-order reference; Q1 for reported delivery, fractions and special rows over all feasible x', '6 C20',
         'Order lists with overlapping, nested, partly and wholly outside orders (before/between/after), full execution, discounting and companions: optimum equals the reference for all prices/parameters; reported delivery = sum fraction*capacity*dt and special rows are exact for all feasible points.'),

 'C13': ('Q3 two-way embeddings (explicit linear maps) between the option problem and the real fine problem plus the defining equalities; Q1 constant reported rate', '6 C13',
         'For contracts (one/two variables), transports, storages, multi-commodity and take contracts with a coarser frequency (aligned, unaligned and horizon-straddling windows) or a periodicity (with/without duration): optimum and feasible set equal those of the fine problem with the equalities added, for all parameter values and prices (wacc = 0); reported rates are constant per coarse interval / identical across periods. One open known finding (periodic Plant).'),

 'C15': ('Q2 term identities between the rebuilt problem and fresh problems (pinned bounds on exactly the window variables, everything else unchanged), Q1 consequences (x_prev feasible, window pinned)', '6 C15',
         'For masks and dates (on and between grid points) and portfolios with several mapping rows per variable (transport, multi-commodity, CHP fuel, coarse, order book, periodic): for ALL previous solutions x_prev, parameter values and new prices the rebuilt problem is the fresh problem with exactly the window variables pinned to x_prev.'),

 'C16': ('Q3 two-way embeddings: scaled asset (fixed scale, and free scale with the scale as symbolic LP variable) vs base asset with scaled quantities; structured vs flat portfolio; Q1 external dispatch', '6 C16',
         'Scaled storage/transport/contract/take contract: same feasible dispatch and value = base value - fix_costs*s*(active duration of the scaled asset) for all base parameters and prices; free scale: for every sigma in [min,max] the free problem restricted to sigma is the base problem scaled by sigma/S; structured vs flat: same feasible set, value and external dispatch.'),

 'C14': ('Q2 structural identity of the split mapping against the interval problems (original-grid steps, shifted indices, coverage), Q3 embeddings split<->unsplit by concatenation', '6 C14',
         'Uncoupled portfolios (aligned/unaligned horizons, anchored weekly intervals, one-step tail, day/minute main unit, symbolic wacc): split and unsplit problem have the same feasible set and value under concatenation for all parameters and prices; storages with start=end: every split point is feasible for the unsplit problem with at least its value (split optimum <= unsplit optimum, limits and balances hold on the original grid).'),

 'C09': ('Q3 two-way embeddings under the relabelling of variable keys between a renamed/permuted portfolio and the baseline; Q1 equality of reported tables up to relabelling', '6 C09',
         'For adversarial namings (numeric, prefix/suffix, separators, swapped, spaces, longer out-node name, 2-digit index collisions) and asset orders (all 24 in the thorough tier), one- and two-node storage and a LinkedAsset referenced by name: feasible set, value and every reported dispatch/DCF/storage cell coincide with the baseline for all parameter values, prices and feasible points. Names come from a fixed list (structure), numbers are symbolic.'),

 'C10': ('bounded exhaustive enumeration of call histories on shared objects, each decided by Q2 term-by-term equality of the lifted final problem with a fresh object\'s problem (symbolic data); cache poisoning', '6 C10',
         'All histories up to length 1 (quick) / 2 (thorough) over 12 operations (set-ups on 7 grids, the same grid object again, split set-up, cost samples, a shared price frame, the portfolio wrapped in a structured asset) x 7 final set-ups plus 4 further final call forms (portfolio / every asset alone without the grid argument, split set-up, cost samples from a refilled sample dictionary) x 5 portfolios (interval dictionaries with/without end, take dictionaries, own frequency/window/wacc, scaled and structured wrappers, order book): the final problem equals the fresh one for all parameter values and prices, no later call crashes, and no result depends on a cache an earlier call left on the grid. Histories are enumerated (bounded), data are symbolic.'),

 'C03': ('Q2/Q1 on the real optimize() executed against a recorder stub of cvxpy with fully symbolic problems (all row-type strings, adversarial mappings) + solver contract; concrete contract validation against the real solvers with z3 Optimize as oracle', '6 C03',
         'EAO\'s own part of the optimiser (hand-over of bounds/rows/booleans/objective, result assembly, status handling, dual bookkeeping, split merging) is decided for ALL coefficient values of m<=3 x 3 problems over every row-type string and mapping shape, and for assembled LP/MIP problems; that the native solver answers optimally is an explicit contract, validated on seeded instances with every installed solver (instance testing, reported as such).'),
 'C17': ('Q1/Q2 characterisation of the real make_slp output as the two-stage program (both implications per scenario, value = mean of independently set-up scenario values); robust target through the cvxpy recorder stub (epigraph rows, objective, reported value)', '6 C17',
         'For contract+storage, two-node, transport-only-balance, reverse transport with costs, scaled and multi-commodity portfolios, boundary at first/middle/last step and 1-2 extra scenarios: the make_slp problem is exactly {x_p, z^s : F(x_p,z^s) for all s} with value the scenario mean, for all parameters and scenario prices; the property\'s bounds are consequences. Robust: recorded problem is max t, t <= -c_s.x, x in F.'),

 'C12': ('Q2 term-by-term identity of the lifted problems built for two main time units (rates x kappa, durations / kappa); Q3 embeddings against the reference model on DST / calendar-month grids with step lengths recomputed from UTC instants', '6 C12',
         'Unit pairs h/d/min for storage (inflow, holding cost, max holding time), transport and contract with takes, Plant (ramp, last dispatch, runtime/downtime, running costs, fuel), scaled asset (fix costs), assets with an own coarser frequency (take contract, transport, storage) and split problems: identical problems for all parameter values incl. discount atoms. Irregular grids (CET/US-Eastern DST days, months): limits = rate x actual step length, holding cost and discounting follow real elapsed time, for all parameters and prices.'),

 'C18': ('Q2 placement/sign of symbolic duals through the real extract_output (rows identified by their support); Level-0 supergradient certificate: z3 over all injections d and all re-optimised points x\' on the real problem with the real solvers\' reported prices', '6 C18',
         'Placement: for every catalogue shape incl. split problems with unequal intervals, nodes that become active later and structured assets, the price reported at (node, step) is minus the dual of exactly the nodal row made of that pair\'s dispatch, for all dual values. Meaning: for seeded concrete LP portfolios and every installed LP solver, z3 shows that NO injection of any size or sign and NO feasible re-optimised point beats V + price*d (all d, not sampled d). The portfolio/price instances are finite (a real solver must produce the duals).'),

 'C11': ('Q2 term-by-term identity of lifted problems before/after the real (de)serialisation hooks executed through a tree-walking json stand-in with symbolic numeric leaves; tree equality of re-saved JSON; grid points/zone', '6 C11',
         'For 16 asset classes/parameter forms x {fresh, after set-up} x grids and portfolios carrying naive/CET/ambiguous-hour grids: for ALL numeric contents the loaded object yields the identical problem for symbolic prices on two grids, re-saving reproduces the JSON tree, grid points and time zone survive. Classes, dates and forms are enumerated (structure); one open known finding (LinkedAsset).'),

 'C19': ('Q1 per path of the real restricted-grid constructor and values_to_grid executed on a directly constructed grid state with SYMBOLIC time points, windows, interval bounds and values; Q2 for coarse grids with symbolic step lengths; concrete enumeration for pandas-built grids', '6 C19',
         'Restricted grid: for every placement of a symbolic window relative to 3-4 symbolic strictly increasing points the result is exactly the index-consistent subset in [start,end). Interval data: for all placements of <=2 symbolic intervals (explicit/implicit end, single start, scalars) each point gets the value of the containing interval, NaN iff outside, ValueError iff a point lies in two intervals. Coarse grids partition the covered fine steps with dt = sum of fine dt (symbolic). Grid construction by pandas (DST, months) is checked concretely on 15 grids - enumerated, not solver-decided.'),
}
NA = {}
props = [json.loads(l) for l in open(os.path.join(ROOT, 'properties.jsonl'))]
checks, na = [], []
for p in props:
    pid = p['id']
    if pid in CHECKS:
        tech, ref, text = CHECKS[pid]
        checks.append(dict(property_id=pid, quick_cmd='./check %s --tier quick' % pid, thorough_cmd='./check %s --tier thorough' % pid,
                           evidence_file='/verif/evidence/%s.json' % pid, replay_cmd_template='./check --replay {path}',
                           engine='vf', level_claimed=dict(category='other', text=text, design_ref='DESIGN.md section ' + ref),
                           level_note=NOTE, technique=TECH + tech))
    else:
        na.append(dict(property_id=pid, reason=NA.get(pid, 'check not built yet in this round (planned: see DESIGN.md section 6)')))
man = dict(version=1, setup_cmd='./setup.sh',
           hooks=dict(guard='EAO_VERIF', enable='no hooks: the lifting layer injects globals into the imported eaopack modules of the checker process; /repo is not modified',
                      baseline_off_cmd=BASE, source_commits=[], add_only=True),
           engines=[dict(name='vf', path='/verif/vf', serves_properties=sorted(CHECKS),
                         kind_free_text='lifted symbolic execution of the real Python code on z3-backed scalars + SMT queries (z3, cvc5 cross-check)')],
           checks=checks, not_applicable=na,
           notes='Exit codes: 0 pass, 1 replay-confirmed violation, 2 harness error / inconclusive. Known findings: /verif/known_findings.json.')
json.dump(man, open(os.path.join(ROOT, 'MANIFEST.json'), 'w'), indent=1)
print('checks', len(checks), 'n/a', len(na))
