#!/bin/bash
# Development aid: confirm a seeded change in a scratch worktree (outside /repo and /verif) and store it under /verif/seeded/<id>/.
#   demo fails with the change, passes without it, the complete existing test suite passes with it.
id=$1; src=/tmp/mut/$id; wt=/tmp/confirm_$id
set -u
git -C /repo worktree add -q --detach $wt HEAD || exit 2
cd $wt
git apply $src/patch.diff || { echo "$id: patch does not apply"; git -C /repo worktree remove --force $wt; exit 2; }
/venv/bin/python $src/demo.py >/tmp/confirm_$id.demo_with.log 2>&1; d_with=$?
/venv/bin/python -m pytest -q -p no:cacheprovider --timeout=900 >/tmp/confirm_$id.tests.log 2>&1; t_with=$?
tests=$(tail -1 /tmp/confirm_$id.tests.log)
git checkout -q -- . ; git clean -fdq
/venv/bin/python $src/demo.py >/tmp/confirm_$id.demo_without.log 2>&1; d_without=$?
cd /; git -C /repo worktree remove --force $wt
echo "$id: demo_with=$d_with demo_without=$d_without tests_with=$t_with ($tests)"
if [ $d_with -ne 0 ] && [ $d_without -eq 0 ] && [ $t_with -eq 0 ]; then
  mkdir -p /verif/seeded/$id; cp $src/patch.diff $src/demo.py /verif/seeded/$id/
  /usr/bin/python3 - "$id" "$tests" <<'PY'
import json,sys
id_,tests=sys.argv[1],sys.argv[2]
m=json.load(open('/tmp/mut/%s/meta.json'%id_))
m['confirmed']=dict(demo_fails_with_change=True, demo_passes_without=True, test_suite_with_change=tests,
                    ran=['git apply patch.diff (scratch worktree of /repo HEAD)', '/venv/bin/python demo.py', '/venv/bin/python -m pytest -q -p no:cacheprovider --timeout=900', 'git checkout -- . ; /venv/bin/python demo.py'])
json.dump(m,open('/verif/seeded/%s/meta.json'%id_,'w'),indent=1)
PY
  echo "$id: CONFIRMED and stored"
else
  echo "$id: NOT confirmed"
fi
