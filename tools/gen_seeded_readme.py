#!/usr/bin/env python3
"""Development aid: (re)generate /verif/seeded/README.md from the meta.json / detection.json of every seeded change."""
import json, os
S = '/verif/seeded'
rows = []
for d in sorted(os.listdir(S)):
    p = os.path.join(S, d)
    if not os.path.isdir(p):
        continue
    m = json.load(open(os.path.join(p, 'meta.json')))
    det = json.load(open(os.path.join(p, 'detection.json'))) if os.path.exists(os.path.join(p, 'detection.json')) else {}
    res = det.get('results', {})
    own = d.split('_')[0]
    owner = res.get(own, {})
    first = (owner.get('first') or [''])[0].strip()
    first = first.replace('violated: ', '').replace('|', '/')[:150]
    others = ', '.join('%s:%s' % (k, 'caught' if v.get('exit') == 1 else ('exit 2' if v.get('exit') == 2 else 'not affected')) for k, v in res.items() if k != own)
    rows.append((d, m.get('what', '').replace('|', '/').replace('\n', ' ')[:230], 'exit %s' % owner.get('exit', '?'), first, others))
with open(os.path.join(S, 'README.md'), 'w') as f:
    f.write('# Seeded changes\n\n')
    f.write('Written by independent sub-agents that saw only the property text and a scratch worktree of /repo; each confirmed in a scratch worktree\n'
            '(demo fails with the change, passes without it, the complete existing test suite passes with it: `meta.json`). `tools/matrix.py` applies each\n'
            'change in a scratch worktree of the current /repo HEAD and runs the owning check (quick tier) through `EAO_REPO`: `detection.json`.\n'
            'Exit 1 = reported as `VIOLATION` (replay-confirmed). None of these changes is ever committed to /repo.\n\n')
    f.write('%d changes, %d detected by the owning check.\n\n' % (len(rows), sum(1 for r in rows if r[2] == 'exit 1')))
    f.write('| id | change | owning check | first reported violation | other checks run |\n|---|---|---|---|---|\n')
    for r in rows:
        f.write('| %s | %s | %s | %s | %s |\n' % r)
print(len(rows), sum(1 for r in rows if r[2] == 'exit 1'))
