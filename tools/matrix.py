#!/usr/bin/env python3
"""Development aid: run the seeded changes in /verif/seeded against their owning checks, each in its own scratch worktree
(EAO_REPO points the checks there; /repo itself is not touched). Writes /verif/seeded/<id>/detection.json.
usage: matrix.py [ids...]      env: MATRIX_JOBS (default 3), VERIF_TIER"""
import json, os, subprocess, sys, concurrent.futures as cf, shutil, tempfile, threading
GITLOCK = threading.Lock()
SEEDED = '/verif/seeded'
EXTRA = {'C08_2': ['C13', 'C19'], 'C07_1': ['C14', 'C04'], 'C04_1': ['C07', 'C14'], 'C06_2': [], 'C20_1': ['C10'], 'C18_1': ['C14'], 'C13_1': ['C19'], 'C19_1': ['C13'],
         'C01_1': ['C07', 'C18'], 'C12_1': ['C02'], 'C02_1': ['C12'],
         'C10_4': ['C04', 'C02'], 'C12_4': ['C05'], 'C13_3': ['C01'], 'C14_3': ['C12'], 'C14_4': ['C01', 'C04', 'C07'], 'C16_4': ['C08'], 'C17_4': ['C16'],
         'C09_3': ['C10', 'C04'], 'C07_4': ['C14'], 'C15_4': ['C07', 'C05'], 'C18_4': ['C14'], 'C19_3': ['C12'], 'C20_3': ['C12'], 'C11_4': ['C12'], 'C03_4': ['C14'], 'C07_3': ['C13', 'C01'],
         'C01_5': ['C04', 'C17'], 'C02_5': ['C12'], 'C04_6': ['C17', 'C03'], 'C05_5': ['C12'], 'C08_5': ['C06', 'C07'], 'C08_6': ['C13', 'C19'], 'C13_5': ['C02'], 'C13_6': ['C08', 'C19'],
         'C14_5': ['C02', 'C08'], 'C14_6': ['C02'],
         'C19_5': ['C12', 'C14'], 'C12_5': ['C14'], 'C17_5': ['C15'], 'C16_6': ['C17'], 'C07_5': ['C06', 'C15'], 'C07_6': ['C05', 'C15'], 'C15_5': ['C07', 'C04'], 'C10_6': ['C12'], 'C17_6': ['C03'],
         'C02_7': ['C08'], 'C02_8': ['C13'], 'C05_8': ['C13', 'C19'], 'C06_8': ['C12', 'C19'], 'C08_7': ['C02'], 'C08_8': ['C05'], 'C12_7': ['C06'], 'C12_8': ['C19', 'C13'], 'C13_7': ['C07'], 'C19_7': ['C02'], 'C20_8': ['C09'],
         'C01_7': ['C03', 'C04'], 'C04_7': ['C03'], 'C14_8': ['C15'], 'C17_8': ['C15'], 'C15_8': ['C07', 'C10'], 'C14_7': ['C13'], 'C16_7': ['C10'],
         'C07_7': ['C13', 'C02'], 'C07_8': ['C06'], 'C09_7': ['C13', 'C01'], 'C18_8': ['C03']}
tier = os.environ.get('VERIF_TIER', 'quick')

def run(mid):
    wt = tempfile.mkdtemp(prefix='mx_%s_' % mid, dir='/tmp')
    os.rmdir(wt)
    out = dict(id=mid, tier=tier, results={})
    try:
        with GITLOCK:
            subprocess.run(['git', '-C', '/repo', 'worktree', 'add', '-q', '--detach', wt, 'HEAD'], check=True)
        r = subprocess.run(['git', '-C', wt, 'apply', os.path.join(SEEDED, mid, 'patch.diff')], capture_output=True, text=True)
        if r.returncode != 0:
            out['error'] = 'patch does not apply: ' + r.stderr[:200]
            return out
        owner = mid.split('_')[0]
        for prop in [owner] + EXTRA.get(mid, []):
            env = dict(os.environ, EAO_REPO=wt, VERIF_EVIDENCE_DIR=os.path.join(wt, '.evidence'), VERIF_REPLAY_DIR=os.path.join(wt, '.replays'), VERIF_JOBS='8')
            p = subprocess.run(['/verif/check', prop, '--tier', tier], capture_output=True, text=True, env=env)
            lines = [l for l in p.stdout.splitlines() if l.startswith(('  violated', 'INCONCL', 'UNCONF', 'HARNESS', 'SHIM'))]
            out['results'][prop] = dict(exit=p.returncode, first=lines[:2])
    finally:
        with GITLOCK:
            subprocess.run(['git', '-C', '/repo', 'worktree', 'remove', '--force', wt], capture_output=True)
        shutil.rmtree(wt, ignore_errors=True)
    json.dump(out, open(os.path.join(SEEDED, mid, 'detection.json'), 'w'), indent=1)
    return out

ids = sys.argv[1:] or sorted(os.listdir(SEEDED))
with cf.ThreadPoolExecutor(int(os.environ.get('MATRIX_JOBS', '3'))) as ex:
    for o in ex.map(run, ids):
        print(o['id'], o.get('error', ''), {k: v['exit'] for k, v in o['results'].items()}, flush=True)
