#!/bin/bash
# Idempotent, offline bootstrap of the checker interpreter.
#   /verif/.venv  = venv made from /venv/bin/python (the repository's interpreter), with a .pth that adds
#                   /venv's site-packages (numpy, pandas, scipy, cvxpy as the test-suite uses them) and
#                   z3-solver / cvc5 / jsonschema installed from the offline wheelhouse.
# Every ./check invocation calls this first, so a fresh restore works without a separate setup step.
set -e
cd "$(dirname "$0")"
ROOT="$(pwd)"
VENV="$ROOT/.venv"
STAMP=$VENV/.ok
if [ -f "$STAMP" ] && "$VENV/bin/python" -c "import z3, jsonschema, numpy, pandas" 2>/dev/null; then
    exit 0
fi
(
    flock 9
    if [ -f "$STAMP" ] && "$VENV/bin/python" -c "import z3, jsonschema, numpy, pandas" 2>/dev/null; then
        exit 0
    fi
    rm -rf "$VENV"
    /venv/bin/python -m venv "$VENV"
    SP=$("$VENV/bin/python" -c "import sysconfig; print(sysconfig.get_paths()['purelib'])")
    echo "import site; site.addsitedir('/venv/lib/python3.12/site-packages')" > "$SP/zz_repo_env.pth"
    PIP_NO_INDEX=1 "$VENV/bin/python" -m pip install -q --no-index --find-links /opt/veriftools/wheels \
        --no-deps z3-solver cvc5 jsonschema attrs referencing rpds_py jsonschema_specifications typing_extensions \
        >/dev/null 2>&1 || PIP_NO_INDEX=1 "$VENV/bin/python" -m pip install --no-index --find-links /opt/veriftools/wheels \
        --no-deps z3-solver cvc5 jsonschema attrs referencing rpds_py jsonschema_specifications typing_extensions
    "$VENV/bin/python" -c "import z3, jsonschema, numpy, pandas, scipy, cvxpy; print('verif venv ok: z3', z3.get_version_string())"
    touch "$STAMP"
) 9>"$ROOT/.setup.lock"
