"""Q3 embeddings between two problems produced by the real code (with/without an element, renamed/permuted, option vs fine
problem plus equalities, split vs unsplit, scaled vs base, structured vs flat ...).

EMB(P -> Q, phi, rel):  base /\\ F_P(x)  =>  F_Q(phi(x))  /\\  val_Q(phi(x)) rel val_P(x)       (one query per target constraint)
phi is given as a list of terms over P's variables, one per variable of Q, obtained from the *meaning* of the variables
(asset, var_name, time_step, node), never from positions.
"""
import z3

from . import sym, lpsem
from .sym import lift as zl


def keymap(lp, rename=None):
    """meaning key -> variable index; rename: function on (asset, var_name, step, node) keys"""
    out = {}
    for i, k in lp.var_keys().items():
        if rename is not None:
            k = rename(k)
        out.setdefault(k, i)
    return out


def phi_by_keys(P, xP, Q, rename_P=None, rename_Q=None, default=None):
    """for every variable of Q the P-variable with the same meaning; variables of Q without counterpart get `default`
    (None -> reported as missing)"""
    kp = keymap(P, rename_P)
    terms, missing = [], []
    qk = {}
    for i, k in Q.var_keys().items():
        qk[i] = rename_Q(k) if rename_Q is not None else k
    for i in range(Q.n):
        k = qk.get(i)
        if k is not None and k in kp:
            terms.append(xP[kp[k]])
        else:
            terms.append(default)
            missing.append(i)
    return terms, missing


def phi_contract_forms(P, xP, Q, numeric=False):
    """like phi_by_keys, but a contract may use its one-variable form ('disp') in one problem and its two-variable form
    ('disp_in' = the negative part, 'disp_out' = the positive part) in the other (chosen by the sign pattern of its capacities over
    the horizon of the problem): disp = disp_in + disp_out, disp_in = min(disp, 0), disp_out = max(disp, 0).
    numeric: xP are floats, terms are floats."""
    kp = keymap(P)
    neg = (lambda v: min(v, 0.0)) if numeric else (lambda v: z3.If(v < 0, v, z3.RealVal(0)))
    pos = (lambda v: max(v, 0.0)) if numeric else (lambda v: z3.If(v > 0, v, z3.RealVal(0)))
    terms, missing = [], []
    qk = Q.var_keys()
    for i in range(Q.n):
        k = qk.get(i)
        if k is not None and k in kp:
            terms.append(xP[kp[k]])
            continue
        t_ = None
        if k is not None:
            asset, vn, st, node = k
            if vn in ('disp_in', 'disp_out') and (asset, 'disp', st, node) in kp:
                v = xP[kp[(asset, 'disp', st, node)]]
                t_ = neg(v) if vn == 'disp_in' else pos(v)
            elif vn == 'disp' and (asset, 'disp_in', st, node) in kp and (asset, 'disp_out', st, node) in kp:
                t_ = xP[kp[(asset, 'disp_in', st, node)]] + xP[kp[(asset, 'disp_out', st, node)]]
            elif vn == 'scale':
                # the scale of a scaled asset: one variable in the unsplit problem, one per interval in a split problem (filed at the interval's
                # first step) -- at a fixed scale they all carry the same value
                cands = sorted((kk for kk in kp if kk[0] == asset and kk[1] == 'scale'), key=lambda kk: kk[2])
                if cands:
                    t_ = xP[kp[cands[0]]]
        terms.append(t_)
        if t_ is None:
            missing.append(i)
    return terms, missing


def replay_forms(opP, opQ, env, prefix, const=None):
    """numeric re-evaluation of phi_contract_forms at the witness on the unshimmed problems"""
    from . import obs as _obs, scen
    P, Q = lpsem.LP(opP), lpsem.LP(opQ)
    x0 = [float(env.get('%s%d' % (prefix, i), 0.0)) for i in range(P.n)]
    y, missing = phi_contract_forms(P, x0, Q, numeric=True)
    y = [0.0 if v is None else float(v) for v in y]
    oP, oQ = _obs.to_jsonable(_obs.problem_obs(opP)), _obs.to_jsonable(_obs.problem_obs(opQ))
    return dict(res_P=scen.feasibility_residual(oP, x0), res_Q=scen.feasibility_residual(oQ, y),
                val_P=-sum(c * v for c, v in zip(oP['c'], x0)) + (const or 0.0), val_Q=-sum(c * v for c, v in zip(oQ['c'], y)))


def goals_for(Q, xt, val_rel=None, extra=None, tag=''):
    goals = []
    for i in range(Q.n):
        goals.append(('%sl[%d]' % (tag, i), Q.l[i] <= xt[i], dict(label='l[%d]' % i)))
        goals.append(('%su[%d]' % (tag, i), xt[i] <= Q.u[i], dict(label='u[%d]' % i)))
    for i in sorted(Q.bools):
        goals.append(('%sint[%d]' % (tag, i), z3.Or(xt[i] == 0, xt[i] == 1), dict(label='int[%d]' % i)))
    for r, (coefs, ty, rhs) in enumerate(Q.rows):
        goals.append(('%srow[%d]' % (tag, r), lpsem.row_constraint(coefs, ty, rhs, xt), dict(label='row[%d]' % r)))
    return goals


def embed(rec, name, base, P, xP, Q, xt, rel='==', info=None, val_P=None, val_Q=None, extra_assume=()):
    """returns True if every obligation was discharged"""
    F = P.feas(xP) + list(extra_assume)
    assume = list(base) + F
    if rec.vacuity(name, assume) is None:
        return False
    goals = goals_for(Q, xt)
    vP = val_P if val_P is not None else P.val(xP)
    vQ = val_Q if val_Q is not None else Q.val(xt)
    if rel == '==':
        og = vQ == vP
    elif rel == '>=':
        og = vQ >= vP
    else:
        og = vQ <= vP
    goals.append(('objective', og, dict(label='objective')))
    rec.twin(name, assume, vQ == vP + 1)
    i2 = dict(info or {})
    i2['emb'] = name
    return rec.prove_each(name, assume, goals, form='Q3', info=i2)


# ------------------------------------------------------------------------------------------------ pristine side
def optimum(op):
    """real optimisation through the real OptimProblem.optimize; returns (value or None, status)"""
    res = op.optimize()
    if isinstance(res, str):
        return None, res
    return float(res.value), 'optimal'


def judge_values(vP, sP, vQ, sQ, rel='==', tol=1e-6, what=('P', 'Q')):
    """compare real optima of the two sides"""
    if (vP is None) != (vQ is None):
        if rel == '==' or (rel == '<=' and vQ is None) or (rel == '>=' and vP is None):
            return True, 'feasibility differs: %s %s, %s %s' % (what[0], sP, what[1], sQ)
        return False, 'one side infeasible, allowed by the one-sided claim'
    if vP is None:
        return False, 'both infeasible'
    scale = max(1.0, abs(vP), abs(vQ))
    d = vQ - vP
    if rel == '==' and abs(d) > tol * scale:
        return True, 'optimal value %s %.8g vs %s %.8g' % (what[0], vP, what[1], vQ)
    if rel == '>=' and d < -tol * scale:
        return True, 'optimal value %s %.8g exceeds %s %.8g' % (what[0], vP, what[1], vQ)
    if rel == '<=' and d > tol * scale:
        return True, 'optimal value %s %.8g exceeds %s %.8g' % (what[1], vQ, what[0], vP)
    return False, 'optima agree (%.8g vs %.8g)' % (vP, vQ)


# ------------------------------------------------------------------------------------------------ linear maps
class LinMap:
    """phi as an explicit linear map: target variable i = sum_j coef[i][j] * source_j  (coefficients: Fractions).
    The same object is built from structure only, so the lifted side applies it to z3 terms and the pristine side to floats."""

    def __init__(self, n_target):
        self.rows = [dict() for _ in range(n_target)]

    def set(self, i, j, coef=1):
        from fractions import Fraction
        self.rows[i][j] = self.rows[i].get(j, Fraction(0)) + Fraction(coef)

    def apply_sym(self, x):
        out = []
        for r in self.rows:
            ts = [x[j] if c == 1 else x[j] * sym.ratval(c) for j, c in r.items()]
            out.append(z3.RealVal(0) if not ts else (ts[0] if len(ts) == 1 else z3.Sum(ts)))
        return out

    def apply_num(self, x):
        return [float(sum(float(c) * x[j] for j, c in r.items())) for r in self.rows]


def replay_numbers(obsP, obsQ, M, x0, extra_rows=None):
    """numeric re-evaluation of an embedding at a witness on the unshimmed problems (observations)"""
    from . import scen
    y = M.apply_num(x0)
    out = dict(res_P=scen.feasibility_residual(obsP, x0), res_Q=scen.feasibility_residual(obsQ, y),
               val_P=-sum(c * v for c, v in zip(obsP['c'], x0)), val_Q=-sum(c * v for c, v in zip(obsQ['c'], y)))
    if extra_rows:
        out['res_extra'] = max([0.0] + [abs(sum(co * x0[j] for j, co in r.items())) for r in extra_rows])
    return out


def judge_numbers(nums, label, rel='==', tol=1e-6, what=('P', 'Q')):
    if nums.get('res_P', 1) > 1e-6 or nums.get('res_extra', 0) > 1e-6:
        return False, 'witness infeasible for the unshimmed %s problem (residual %.3g)' % (what[0], max(nums.get('res_P', 0), nums.get('res_extra', 0)))
    if label == 'objective':
        d = nums['val_Q'] - nums['val_P']
        scale = max(1.0, abs(nums['val_P']), abs(nums['val_Q']))
        bad = abs(d) > tol * scale if rel == '==' else (d < -tol * scale if rel == '>=' else d > tol * scale)
        return bad, 'a feasible point of the %s problem with value %.8g maps to value %.8g in the %s problem' % (what[0], nums['val_P'], nums['val_Q'], what[1])
    bad = nums['res_Q'] > 1e-6
    return bad, 'a feasible point of the %s problem maps to an infeasible point of the %s problem (residual %.6g, %s)' % (what[0], what[1], nums['res_Q'], label)


def linmap_by_keys(P, Q, rename_P=None, rename_Q=None):
    """phi_by_keys as an explicit LinMap (target = Q); variables of Q without counterpart map to 0"""
    kp = keymap(P, rename_P)
    M = LinMap(Q.n)
    qk = Q.var_keys()
    for i in range(Q.n):
        k = qk.get(i)
        if k is not None and rename_Q is not None:
            k = rename_Q(k)
        if k is not None and k in kp:
            M.set(i, kp[k])
    return M


def replay_keys(opP, opQ, env, prefix, rename_P=None, rename_Q=None, pin=None, const=None):
    """numeric re-evaluation of a key-based embedding P -> Q at the witness env (x named prefix+i) on the unshimmed problems.
    pin: {index in Q: value} for variables of Q that the map sets to a constant"""
    from . import obs as _obs
    P, Q = lpsem.LP(opP), lpsem.LP(opQ)
    M = linmap_by_keys(P, Q, rename_P, rename_Q)
    x0 = [float(env.get('%s%d' % (prefix, i), 0.0)) for i in range(P.n)]
    oP, oQ = _obs.to_jsonable(_obs.problem_obs(opP)), _obs.to_jsonable(_obs.problem_obs(opQ))
    from . import scen
    y = M.apply_num(x0)
    for i, v in (pin or {}).items():
        y[i] = v
    return dict(res_P=scen.feasibility_residual(oP, x0), res_Q=scen.feasibility_residual(oQ, y),
                val_P=-sum(c * v for c, v in zip(oP['c'], x0)) + (const or 0.0), val_Q=-sum(c * v for c, v in zip(oQ['c'], y)))
