"""Bridge between a catalogue portfolio and the independent reference model (vf.refmodel):
  spec_from_shape : reads the user's *inputs* (asset parameters, windows, grid points, prices) -- never the assembled LP
  to_ref / to_eao : explicit maps between EAO's variable space and the reference's physical variables, built from the
                    meaning columns of the mapping (asset, var_name, time_step, node), never from positions.
"""
from fractions import Fraction

import numpy as np
import pandas as pd
import z3

from . import sym
from .sym import Sym, lift as zl, ratval

UNIT_S = {'h': 3600, 'd': 86400, 'min': 60, 's': 1}


def _ts(v, tz):
    if v is None:
        return None
    v = pd.Timestamp(v)
    if v.tzinfo is None and tz is not None:
        v = v.tz_localize(tz)
    return v


def grid_facts(tg):
    """step lengths and elapsed times recomputed from the grid points (python arithmetic on UTC instants)"""
    tp = list(tg.timepoints)
    ends = tp[1:] + [tg.end]
    us = UNIT_S[tg.main_time_unit]
    dt = [Fraction(int(round((e - s).total_seconds())), us) for s, e in zip(tp, ends)]
    el = [Fraction(int(round((e - tp[0]).total_seconds())), 86400) for e in ends]
    return tp, ends, dt, el


def _vec(v, prices, tg, T, default=0.0):
    if isinstance(v, str):
        return [zl(prices[v][t]) for t in range(T)]
    if isinstance(v, dict):
        tp = list(tg.timepoints)
        st = [_ts(s, tg.tz) for s in v['start']]
        if 'end' in v:
            en = [_ts(e, tg.tz) for e in v['end']]
        else:
            en = st[1:] + [_ts(pd.Timestamp('2200-01-01'), tg.tz)]      # open end
        out = []
        for t in range(T):
            val = default
            for s, e, x in zip(st, en, v['values']):
                if s <= tp[t] < e:
                    val = x
            out.append(zl(val))
        return out
    if isinstance(v, np.ndarray):
        return [zl(x) for x in v]
    return [zl(v)] * T


def A(a, name, default=None):
    """the value the harness passed to the constructor (falls back to the attribute)"""
    from . import lift
    return lift.ctor_arg(a, name, default)


def _active(a, tg, tp):
    s, e = _ts(A(a, 'start'), tg.tz), _ts(A(a, 'end'), tg.tz)
    return [t for t in range(len(tp)) if (s is None or tp[t] >= s) and (e is None or tp[t] < e)]


def _takes(a, tg, tp, dt, act, sign=1):
    out = []
    us = UNIT_S[tg.main_time_unit]
    for sense, td in (('max', A(a, 'max_take')), ('min', A(a, 'min_take'))):
        if td is None:
            continue
        for s, e, v in zip(td['start'], td['end'], td['values']):
            s, e = _ts(s, tg.tz), _ts(e, tg.tz)
            steps = [t for t in act if s <= tp[t] < e]
            covered = sum((dt[t] for t in steps), Fraction(0))
            whole = Fraction(int(round((e - s).total_seconds())), us)
            fr = covered / whole
            out.append((steps, zl(v), fr.numerator, fr.denominator, sense))
    return out


def spec_from_shape(sh):
    tg = sh.tg
    tp, ends, dt, el = grid_facts(tg)
    T = tg.T
    assets = []
    for a in sh.portf.assets:
        cls = type(a).__name__
        act = _active(a, tg, tp)
        base = dict(name=a.name, active=act, wacc=A(a, 'wacc'), nodes=[n.name for n in a.nodes])
        if cls in ('SimpleContract', 'Contract', 'MultiCommodityContract'):
            price = _vec(A(a, 'price'), sh.prices, tg, T) if A(a, 'price') is not None else [z3.RealVal(0)] * T
            d = dict(base, kind='contract' if cls != 'MultiCommodityContract' else 'multicommodity', price=price,
                     min_cap=_vec(A(a, 'min_cap'), sh.prices, tg, T), max_cap=_vec(A(a, 'max_cap'), sh.prices, tg, T),
                     extra_costs=_vec(A(a, 'extra_costs'), sh.prices, tg, T), takes=_takes(a, tg, tp, dt, act))
            if cls == 'MultiCommodityContract':
                d['factors'] = [zl(f) for f in A(a, 'factors_commodities')]
            assets.append(d)
        elif cls in ('Transport', 'ExtendedTransport'):
            ts = _vec(A(a, 'costs_time_series'), sh.prices, tg, T) if A(a, 'costs_time_series') is not None else [z3.RealVal(0)] * T
            cost = [c + zl(A(a, 'costs_const')) for c in ts]
            assets.append(dict(base, kind='transport', min_cap=zl(A(a, 'min_cap')), max_cap=zl(A(a, 'max_cap')), eff=zl(A(a, 'efficiency')),
                               cost=cost, takes=_takes(a, tg, tp, dt, act)))
        elif cls == 'Storage':
            assets.append(dict(base, kind='storage', size=zl(A(a, 'size')), cap_in=zl(A(a, 'cap_in')), cap_out=zl(A(a, 'cap_out')),
                               start=zl(A(a, 'start_level')), end=zl(A(a, 'end_level')), eff=zl(A(a, 'eff_in')), inflow=zl(A(a, 'inflow')),
                               cost_in=zl(A(a, 'cost_in')), cost_out=zl(A(a, 'cost_out')), cost_store=zl(A(a, 'cost_store')),
                               price=(_vec(A(a, 'price'), sh.prices, tg, T) if A(a, 'price') is not None else None)))
        elif cls == 'OrderBook':
            orders = []
            uo = (getattr(sh, 'meta', None) or {}).get('user_orders', {}).get(a.name, a.orders)      # the orders as the user gave them
            for s, e, cp, pr in zip(uo['start'], uo['end'], uo['capa'], uo['price']):
                s, e = _ts(s, tg.tz), _ts(e, tg.tz)
                orders.append(dict(steps=[t for t in range(T) if s <= tp[t] < e], capa=zl(cp), price=zl(pr)))
            assets.append(dict(base, kind='orderbook', orders=orders, full_exec=bool(A(a, 'full_exec'))))
        else:
            raise KeyError('no reference for asset class ' + cls)
    return dict(T=T, dt=[ratval(d) for d in dt], dt_frac=dt, elapsed_days_end=el, assets=assets)


def _first_keys(lp):
    """(asset, var_name, step) -> variable index (first mapping row of each variable)"""
    out = {}
    for i, (asset, vn, t, node) in lp.var_keys().items():
        out.setdefault((asset, vn, t), i)
    return out


def to_ref(spec, R, lp, x):
    """EAO -> REF: every reference variable as a term over EAO's variables x.  Returns list of (refvar, term)."""
    k = _first_keys(lp)
    sub = []
    for a in spec['assets']:
        nm = a['name']
        if a['kind'] in ('contract', 'multicommodity'):
            for t in a['active']:
                if (nm, 'disp', t) in k:
                    g = x[k[(nm, 'disp', t)]]
                    ab = z3.If(g >= 0, g, -g)
                else:
                    xi, xo = x[k[(nm, 'disp_in', t)]], x[k[(nm, 'disp_out', t)]]
                    g = xi + xo
                    ab = xo - xi
                sub.append((R.vars['%s_g%d' % (nm, t)], g))
                sub.append((R.vars['%s_a%d' % (nm, t)], ab))
        elif a['kind'] == 'transport':
            for t in a['active']:
                sub.append((R.vars['%s_f%d' % (nm, t)], x[k[(nm, 'disp', t)]]))
        elif a['kind'] == 'storage':
            prev = a['start']
            for t in a['active']:
                if (nm, 'disp', t) in k:
                    v = x[k[(nm, 'disp', t)]]
                    ch = z3.If(v < 0, -v, 0); dis = z3.If(v > 0, v, 0)
                else:
                    ch = -x[k[(nm, 'disp_in', t)]]; dis = x[k[(nm, 'disp_out', t)]]
                lv = prev + a['eff'] * ch - dis + a['inflow'] * spec['dt'][t]
                sub += [(R.vars['%s_ch%d' % (nm, t)], ch), (R.vars['%s_dis%d' % (nm, t)], dis), (R.vars['%s_lv%d' % (nm, t)], lv)]
                prev = lv
        elif a['kind'] == 'orderbook':
            for j, o in enumerate(a['orders']):
                if o['steps']:
                    sub.append((R.vars['%s_e%d' % (nm, j)], x[k[(nm, str(j), o['steps'][0])]]))
    return sub


def to_eao(spec, R, lp):
    """REF -> EAO: every EAO variable as a term over the reference variables. Returns list of terms (one per EAO variable)."""
    k = _first_keys(lp)
    xt = [None] * lp.n
    for a in spec['assets']:
        nm = a['name']
        if a['kind'] in ('contract', 'multicommodity'):
            for t in a['active']:
                g = R.vars['%s_g%d' % (nm, t)]
                if (nm, 'disp', t) in k:
                    xt[k[(nm, 'disp', t)]] = g
                else:
                    xt[k[(nm, 'disp_in', t)]] = z3.If(g < 0, g, 0)
                    xt[k[(nm, 'disp_out', t)]] = z3.If(g > 0, g, 0)
        elif a['kind'] == 'transport':
            for t in a['active']:
                xt[k[(nm, 'disp', t)]] = R.vars['%s_f%d' % (nm, t)]
        elif a['kind'] == 'storage':
            for t in a['active']:
                ch, dis = R.vars['%s_ch%d' % (nm, t)], R.vars['%s_dis%d' % (nm, t)]
                if (nm, 'disp', t) in k:
                    xt[k[(nm, 'disp', t)]] = dis - ch
                else:
                    xt[k[(nm, 'disp_in', t)]] = -ch
                    xt[k[(nm, 'disp_out', t)]] = dis
        elif a['kind'] == 'orderbook':
            for j, o in enumerate(a['orders']):
                if o['steps']:
                    xt[k[(nm, str(j), o['steps'][0])]] = R.vars['%s_e%d' % (nm, j)]
    missing = [i for i, v in enumerate(xt) if v is None]
    return xt, missing
