"""Pristine subprocesses: the unshimmed real code on ordinary floats.

Used for (a) shim validation: the lifted problem/output evaluated at a concrete point of the path's region must equal
what the unshimmed code produces there; (b) replay of solver counterexamples before anything is reported.
"""
import json
import math
import os
import subprocess
import sys
import tempfile
import time

ROOT = os.path.dirname(os.path.dirname(os.path.abspath(__file__)))
PY = os.path.join(ROOT, '.venv', 'bin', 'python')
REPLAY_DIR = os.environ.get('VERIF_REPLAY_DIR') or os.path.join(ROOT, 'replays')

RTOL = 1e-7
ATOL = 1e-8


def run_pristine(requests, tier='quick', seed=0, jobs=None):
    """run observe() for each request in pristine interpreters (no shims); returns list of answers"""
    if not requests:
        return []
    jobs = jobs or min(int(os.environ.get('VERIF_JOBS', '16')), 8, len(requests))
    chunks = [requests[i::jobs] for i in range(jobs)]
    procs = []
    tmpd = tempfile.mkdtemp(prefix='vfpristine_')
    env = dict(os.environ)
    env['VF_PRISTINE'] = '1'
    env['PYTHONPATH'] = ROOT
    env['PYTHONDONTWRITEBYTECODE'] = '1'
    for k, ch in enumerate(chunks):
        fi = os.path.join(tmpd, 'req%d.json' % k)
        fo = os.path.join(tmpd, 'ans%d.json' % k)
        with open(fi, 'w') as f:
            json.dump(dict(requests=ch, tier=tier, seed=seed), f)
        p = subprocess.Popen([PY, '-m', 'vf.pristine', fi, fo], env=env, cwd=ROOT, stdout=subprocess.PIPE,
                             stderr=subprocess.STDOUT)
        procs.append((p, fo, ch))
    answers = []
    for p, fo, ch in procs:
        out, _ = p.communicate()
        if p.returncode != 0 or not os.path.exists(fo):
            for rq in ch:
                answers.append(dict(kind=rq['kind'], case=rq['case'], idx=rq['idx'],
                                    error='pristine subprocess failed: ' + out.decode(errors='replace')[-800:]))
            continue
        with open(fo) as f:
            answers.extend(json.load(f))
    for fn in os.listdir(tmpd):
        os.unlink(os.path.join(tmpd, fn))
    os.rmdir(tmpd)
    return answers


def close(a, b, rtol=RTOL, atol=ATOL):
    if isinstance(a, bool) or isinstance(b, bool):
        return bool(a) == bool(b)
    if a is None or b is None:
        return a is None and b is None
    a = float(a); b = float(b)
    if math.isnan(a) or math.isnan(b):
        return math.isnan(a) and math.isnan(b)
    return abs(a - b) <= atol + rtol * max(abs(a), abs(b))


def diff(a, b, path=''):
    """first difference between two JSON-like observation trees, or None"""
    if isinstance(a, dict) and isinstance(b, dict):
        if set(a) != set(b):
            return '%s: keys differ %s vs %s' % (path, sorted(set(a) - set(b))[:5], sorted(set(b) - set(a))[:5])
        for k in a:
            d = diff(a[k], b[k], path + '/' + str(k))
            if d:
                return d
        return None
    if isinstance(a, (list, tuple)) and isinstance(b, (list, tuple)):
        if len(a) != len(b):
            return '%s: lengths differ %d vs %d' % (path, len(a), len(b))
        for i, (x, y) in enumerate(zip(a, b)):
            d = diff(x, y, '%s[%d]' % (path, i))
            if d:
                return d
        return None
    if isinstance(a, str) or isinstance(b, str):
        return None if a == b else '%s: %r vs %r' % (path, a, b)
    try:
        return None if close(a, b) else '%s: %r vs %r' % (path, a, b)
    except (TypeError, ValueError):
        return None if a == b else '%s: %r vs %r' % (path, a, b)


def compare_validation(v, a):
    if a is None:
        return False, 'no pristine answer'
    if 'error' in a:
        if v.get('expect_error') and v['expect_error'] in a['error']:
            return True, ''
        return False, 'pristine run failed: ' + a['error'][:600]
    d = diff(v['lifted'], a['obs'])
    if d:
        return False, 'lifted vs unshimmed: ' + d
    return True, ''


def write_replay(prop, case, kwargs, cand, text):
    os.makedirs(REPLAY_DIR, exist_ok=True)
    safe = ''.join(ch if ch.isalnum() or ch in '-_.' else '_' for ch in '%s_%s_%s' % (prop, case, cand['name']))[:150]
    path = os.path.join(REPLAY_DIR, safe + '.json')
    with open(path, 'w') as f:
        json.dump(dict(property=prop, case=case, kwargs=kwargs, obligation=cand['name'], env=cand.get('env', {}),
                       info=cand.get('info', {}), observed=text, written=time.strftime('%Y-%m-%dT%H:%M:%S')), f, indent=1,
                  default=str)
    return path


def replay_file(path):
    """re-run one recorded counterexample against the unshimmed code; exit 1 if it still violates"""
    import importlib
    with open(path) as f:
        rp = json.load(f)
    prop = rp['property']
    mod = importlib.import_module('vf.props.' + prop.lower())
    rq = dict(kind='replay', prop=prop, case=rp['case'], kwargs=rp['kwargs'], idx=0, env=rp['env'], name=rp['obligation'],
              info=rp.get('info', {}))
    ans = run_pristine([rq])
    a = ans[0]
    if 'error' in a:
        print('replay error:', a['error'])
        return 2
    from . import common as _common
    jmod, jkw = _common.resolve(prop, rp['kwargs'])
    confirmed, text = jmod.judge(rp['case'], jkw, dict(name=rp['obligation'], env=rp['env'], info=rp.get('info', {})), a)
    print('replay %s: %s -- %s' % (path, 'REPRODUCED' if confirmed else 'not reproduced', text))
    if confirmed:
        print('VIOLATION property=%s replay=%s' % (prop, path))
        return 1
    return 0
