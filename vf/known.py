"""Known findings: /verif/known_findings.json, never written at run time.

entry: id, property, status ('open' | 'fixed: <commit>'), what (one line), case (regex on the case id),
obligation (regex on the obligation name), trigger (human-readable predicate), witness (the failing input).
Only an 'open' entry turns a confirmed violation into a KNOWN-FINDING line; a 'fixed' entry suppresses nothing.
"""
import json
import os
import re

ROOT = os.path.dirname(os.path.dirname(os.path.abspath(__file__)))
PATH = os.path.join(ROOT, 'known_findings.json')


def load():
    if not os.path.exists(PATH):
        return []
    with open(PATH) as f:
        return json.load(f).get('findings', [])


def by_id(findings, fid):
    for k in findings:
        if k['id'] == fid:
            return k
    return None


def is_open(fid, findings=None):
    k = by_id(findings if findings is not None else load(), fid)
    return k is not None and k.get('status') == 'open'


def match(findings, prop, case, obligation, cand=None):
    for k in findings:
        if k.get('property') != prop:
            continue
        if k.get('case') and not re.search(k['case'], case):
            continue
        if k.get('obligation') and not re.search(k['obligation'], obligation):
            continue
        return k
    return None
