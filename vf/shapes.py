"""Shape catalogue: builder functions that construct real EAO objects (portfolio, grid, prices) from a value
source D (vf.lift.Domain).  In symbolic mode D hands out Sym variables with their documented domain as
preconditions, in concrete mode (pristine replay / shim validation) the floats of a recorded assignment.
Structure (asset classes, nodes, steps, windows, frequencies, names, flags, integer durations) is concrete:
the catalogue is the stated bound.
"""
import datetime as dt

import numpy as np
import pandas as pd

from . import lift

T0 = dt.datetime(2021, 1, 4)      # a Monday, no DST anywhere near


class Shape:
    def __init__(self, portf, tg, prices, meta=None):
        self.portf = portf
        self.tg = tg
        self.prices = prices
        self.meta = meta or {}


# grid variants: the same portfolio shape on another kind of grid (thorough sweeps).  gridv = (freq, unit, tz, start) replaces
# the arguments of every grid() call made while a portfolio is built (build_portfolio(..., gridv=...)).
GRID_VARIANTS = {
    'quarter_min': ('15min', 'min', None, '2021-01-04'),
    'day_d_cet_dst': ('d', 'd', 'CET', '2021-03-27'),          # 24 h, 23 h, 24 h, ... days
    'day_h_useast_fall': ('d', 'h', 'US/Eastern', '2021-11-06'),   # 24 h, 25 h, 24 h, ...
    'month_d': ('MS', 'd', None, '2021-01-01'),                # 31, 28, 31, 30 ... days
    'hour_cet_dst': ('h', 'h', 'CET', '2021-03-28'),           # local 02:00 does not exist
    'hour_d_utc': ('h', 'd', 'UTC', '2021-01-04'),
    'day_d_leap': ('d', 'd', None, '2024-02-27'),              # contains 29 February (discounting: 365 days a year by convention)
    'month_d_yearend': ('MS', 'd', None, '2023-11-01'),        # crosses a year end into a leap year
}
_OVERRIDE = [None]


def grid(T, freq='h', unit='h', tz=None, start=T0):
    eao = lift.import_eao()
    if _OVERRIDE[0] is not None and not isinstance(freq, (tuple, list)):
        f, u, z, s_ = GRID_VARIANTS[_OVERRIDE[0]]
        end = pd.date_range(pd.Timestamp(s_), periods=T + 1, freq=f, tz=z)[-1].tz_localize(None)    # wall clock of an existing instant
        return eao.assets.Timegrid(pd.Timestamp(s_).to_pydatetime(), end.to_pydatetime(), freq=f, main_time_unit=u, timezone=z)
    if isinstance(freq, (tuple, list)):
        # explicit grid: (freq, start, end, tz) -- irregular steps (DST days, months); T is ignored
        f, s_, e_, tz_ = freq
        return eao.assets.Timegrid(pd.Timestamp(s_).to_pydatetime(), pd.Timestamp(e_).to_pydatetime(), freq=f, main_time_unit=unit, timezone=tz_)
    step = pd.Timedelta(freq) if any(ch.isdigit() for ch in freq) else pd.Timedelta(1, freq)
    end = pd.Timestamp(start) + T * step
    return eao.assets.Timegrid(pd.Timestamp(start).to_pydatetime(), end.to_pydatetime(), freq=freq,
                               main_time_unit=unit, timezone=tz)


def tstep(tg, k):
    """k-th grid point (k may equal T: grid end) as naive/aware pd.Timestamp"""
    if k >= tg.T:
        return tg.end
    return tg.timepoints[k]


def window(tg, w):
    """w: None or (k0,k1) step indices (may lie outside 0..T: extrapolated with the first step length)"""
    if w is None:
        return None, None
    k0, k1 = w
    step = tg.timepoints[1] - tg.timepoints[0] if tg.T > 1 else (tg.end - tg.timepoints[0])

    def f(k):
        if k is None:
            return None
        if isinstance(k, float) and k != int(k):
            # a date between two grid points (fraction of the step)
            lo = int(np.floor(k))
            a, b = f(lo), f(lo + 1)
            return a + (b - a) * (k - lo)
        k = int(k)
        if 0 <= k < tg.T:
            return tg.timepoints[k]          # a grid point also on irregular grids (DST days, months)
        if k == tg.T:
            return _grid_end(tg)
        return tg.timepoints[0] + k * step if k < 0 else _grid_end(tg) + (k - tg.T) * step
    return f(k0), f(k1)


def _grid_end(tg):
    e = pd.Timestamp(tg.end)
    if e.tzinfo is None and tg.tz is not None:
        e = e.tz_localize(tg.tz)
    return e


def nodes(*names):
    eao = lift.import_eao()
    return [eao.assets.Node(n) for n in names]


# ------------------------------------------------------------------------------------------- asset makers
def mk_market(D, name, node, T, price, cap=None, ec=False, wacc=0, win=None, tg=None, **kw):
    """free market: SimpleContract buying/selling at a price series; caps symbolic (min<=0<=max)"""
    eao = lift.import_eao()
    lo = D(name + '_min', hi=0) if cap is None else -cap
    hi = D(name + '_max', lo=0) if cap is None else cap
    s, e = window(tg, win) if win is not None else (None, None)
    a = eao.assets.SimpleContract(name=name, nodes=node, price=price, min_cap=lo, max_cap=hi,
                                  extra_costs=(D(name + '_ec', lo=0) if ec else 0.), wacc=wacc, start=s, end=e, **kw)
    return a


def mk_storage(D, name, node, price=None, eff=None, costs=True, inflow=True, wacc=0, win=None, tg=None,
               start_eq_end=False, **kw):
    eao = lift.import_eao()
    size = D(name + '_size', lo=0)
    start = D(name + '_start', lo=0)
    end = start if start_eq_end else D(name + '_end', lo=0)
    D.assume(start <= size)
    if not start_eq_end:
        D.assume(end <= size)
    s, e = window(tg, win) if win is not None else (None, None)
    a = eao.assets.Storage(name, nodes=node, size=size, cap_in=D(name + '_capin', lo=0), cap_out=D(name + '_capout', lo=0),
                           start_level=start, end_level=end,
                           cost_in=D(name + '_cin', lo=0) if costs in (True, 'inout') else 0., cost_out=D(name + '_cout', lo=0) if costs in (True, 'inout') else 0.,
                           cost_store=D(name + '_cstore', lo=0) if costs in (True, 'store') else 0.,
                           eff_in=(1. if eff is None else D.coef(name + '_eff', eff, lo_strict=0, hi=1)),
                           inflow=D(name + '_inflow', lo=0) if inflow else 0., price=price, wacc=wacc,
                           start=s, end=e, **kw)
    return a


def mk_transport(D, name, n_from, n_to, eff=None, costs=True, cost_ts=None, wacc=0, win=None, tg=None, cls=None, **kw):
    eao = lift.import_eao()
    lo = D(name + '_min', lo=0)
    hi = D(name + '_max', lo=0)
    D.assume(lo <= hi)
    s, e = window(tg, win) if win is not None else (None, None)
    cls = cls or eao.assets.Transport
    a = cls(name=name, nodes=[n_from, n_to], min_cap=lo, max_cap=hi,
            efficiency=(1. if eff is None else D.coef(name + '_eff', eff, lo_strict=0)),
            costs_const=D(name + '_cc', lo=0) if costs else 0., costs_time_series=cost_ts, wacc=wacc, start=s, end=e, **kw)
    return a


def prices_for(D, names, T):
    return {n: D.arr(n, T) for n in names}


# ------------------------------------------------------------------------------------------- portfolios
def pf_contract_storage(D, T=3, freq='h', unit='h', eff=0.75, wacc=False, win_s=None, win_c=None, storage_kw=None, storage_first=False):
    eao = lift.import_eao()
    tg = grid(T, freq, unit)
    (nA,) = nodes('A')
    w = D('wacc', lo=0) if wacc else 0
    m = mk_market(D, 'mkt', nA, T, 'p', ec=True, wacc=w, win=win_c, tg=tg)
    st = mk_storage(D, 'sto', nA, price=None, eff=eff, wacc=w, win=win_s, tg=tg, **(storage_kw or {}))
    pf = eao.portfolio.Portfolio([st, m] if storage_first else [m, st])      # storage_first: an asset with another window is set up after the storage
    return Shape(pf, tg, prices_for(D, ['p'], T))


def pf_two_node(D, T=3, freq='h', unit='h', eff_s=0.75, eff_t=0.5, wacc=False, win_t=None, two_node_storage=False, storage_kw=None, node_names=('A', 'B')):
    eao = lift.import_eao()
    tg = grid(T, freq, unit)
    nA, nB = nodes(*node_names)      # (first appearance in the asset list: node_names[0] first)
    w = D('wacc', lo=0) if wacc else 0
    m1 = mk_market(D, 'mA', nA, T, 'p', ec=True, wacc=w)
    m2 = mk_market(D, 'mB', nB, T, 'q', wacc=w)
    st = mk_storage(D, 'sto', [nA, nB] if two_node_storage else nB, eff=eff_s, wacc=w, **(storage_kw or {}))
    tr = mk_transport(D, 'tr', nA, nB, eff=eff_t, wacc=w, win=win_t, tg=tg)
    pf = eao.portfolio.Portfolio([m1, st, tr, m2])
    return Shape(pf, tg, prices_for(D, ['p', 'q'], T))


def mk_take(tg, k0, k1, value, tz=None):
    s, e = window(tg, (k0, k1))
    if tz is not None:          # the same instants written in another time zone (zone-aware dates)
        s, e = pd.Timestamp(s).tz_convert(tz), pd.Timestamp(e).tz_convert(tz)
    return {'start': [s], 'end': [e], 'values': [value]}


def pf_multicommodity(D, T=3, freq='h', unit='h', factors=(1.0, 0.5), take=None, win=None, node_names=None):
    """MultiCommodityContract delivering to A and B, one market on each; optional min/max take period (k0,k1)"""
    eao = lift.import_eao()
    tg = grid(T, freq, unit)
    nds = nodes(*['A', 'B', 'C', 'E'][:len(factors)])       # one node per commodity (2 by default; 3 or 4 with longer `factors`)
    if node_names is not None:      # a node may be listed twice (e.g. own consumption booked at the node delivered to)
        byname = {}
        nds = [byname.setdefault(n_, nodes(n_)[0]) for n_ in node_names]
    nA, nB = nds[0], nds[1]
    f = [D.coef('mc_f%d' % i, v) for i, v in enumerate(factors)]
    kw = {}
    if take is not None:
        kw['max_take'] = mk_take(tg, take[0], take[1], D('mc_maxtake', lo=0))
        kw['min_take'] = mk_take(tg, take[0], take[1], D('mc_mintake', hi=0))
    s, e = window(tg, win) if win is not None else (None, None)
    lo = D('mc_min', hi=0); hi = D('mc_max', lo=0)
    mc = eao.assets.MultiCommodityContract(name='mc', nodes=list(nds), price='r', min_cap=lo, max_cap=hi,
                                           extra_costs=D('mc_ec', lo=0), factors_commodities=f, start=s, end=e, **kw)
    m1 = mk_market(D, 'mA', nA, T, 'p')
    m2 = mk_market(D, 'mB', nB, T, 'q')
    more = [mk_market(D, 'm' + n_.name, n_, T, 'q') for n_ in nds[2:] if n_ is not nA and n_ is not nB]
    pf = eao.portfolio.Portfolio([m1, mc, m2] + more)
    return Shape(pf, tg, prices_for(D, ['p', 'q', 'r'], T))


def pf_contract_take(D, T=4, freq='h', unit='h', take=(1, 3), win=None, extra=True, take_tz=None):
    eao = lift.import_eao()
    tg = grid(T, freq, unit)
    (nA,) = nodes('A')
    s, e = window(tg, win) if win is not None else (None, None)
    lo = D('ct_min', hi=0); hi = D('ct_max', lo=0)
    ct = eao.assets.Contract(name='ct', nodes=nA, price='r', min_cap=lo, max_cap=hi,
                             extra_costs=D('ct_ec', lo=0) if extra else 0.,
                             max_take=mk_take(tg, take[0], take[1], D('ct_maxtake', lo=0), tz=take_tz),
                             min_take=mk_take(tg, take[0], take[1], D('ct_mintake', hi=0), tz=take_tz), start=s, end=e)
    m = mk_market(D, 'mkt', nA, T, 'p')
    pf = eao.portfolio.Portfolio([ct, m])
    return Shape(pf, tg, prices_for(D, ['p', 'r'], T))


def mk_plant(D, name, nds, T, price='p', fuel=True, heat=False, mr=0, md=0, tar=0, tao=0, ramp=False, start_costs=True,
             sym_cap=True, start_ramp=None, shutdown_ramp=None, cf_sym=False, last_dispatch=None, win=None, tg=None,
             min_cap_zero=False, **kw):
    """Plant (heat=False) or CHPAsset (heat=True); durations/initial state concrete, everything else symbolic"""
    eao = lift.import_eao()
    mn = 0. if min_cap_zero else (D(name + '_min', lo_strict=0) if sym_cap else 1.)
    mx = D(name + '_max', lo=0) if sym_cap else 3.
    if sym_cap and not min_cap_zero:
        D.assume(mn <= mx)
    args = dict(name=name, nodes=nds, price=price, min_cap=mn, max_cap=mx, min_runtime=mr, min_downtime=md,
                time_already_running=tar, time_already_off=tao,
                start_costs=D(name + '_sc', lo=0) if start_costs else 0., running_costs=D(name + '_rc', lo=0))
    if start_costs == 'dict':
        # interval data covering only part of the horizon: uncovered steps take the documented default 0
        args['start_costs'] = {'start': [tstep(tg, 1)], 'end': [tstep(tg, 2)], 'values': [D(name + '_sc', lo=0)]}
        args['running_costs'] = {'start': [tstep(tg, 0)], 'end': [tstep(tg, 1)], 'values': [D(name + '_rc', lo=0)]}
    if ramp:
        args['ramp'] = D(name + '_ramp', lo_strict=0)
    if last_dispatch is not None:
        args['last_dispatch'] = D(name + '_last', lo=0) if last_dispatch == 'sym' else last_dispatch
    # (lower, None): one profile only -- the documented default upper = lower
    if start_ramp is not None:
        args['start_ramp_lower_bounds'] = list(start_ramp[0])
        if start_ramp[1] is not None:
            args['start_ramp_upper_bounds'] = list(start_ramp[1])
    if shutdown_ramp is not None:
        args['shutdown_ramp_lower_bounds'] = list(shutdown_ramp[0])
        if shutdown_ramp[1] is not None:
            args['shutdown_ramp_upper_bounds'] = list(shutdown_ramp[1])
    if fuel:
        args.update(start_fuel=D(name + '_sf', lo=0), fuel_efficiency=D.coef(name + '_fe', 0.5, lo_strict=0),
                    consumption_if_on=D(name + '_cio', lo=0))
        if start_costs == 'dict':
            args['consumption_if_on'] = {'start': [tstep(tg, 1)], 'end': [tstep(tg, 3)], 'values': [D(name + '_cio', lo=0)]}
    if win is not None:
        args['start'], args['end'] = window(tg, win)
    args.update(kw)
    if heat:
        args['conversion_factor_power_heat'] = D.coef(name + '_cf', 0.25, lo_strict=0) if not cf_sym else cf_sym
        args['max_share_heat'] = D.coef(name + '_msh', 2.0, lo=0)
        return eao.assets.CHPAsset(**args)
    return eao.assets.Plant(**args)


def pf_plant(D, T=3, fuel=True, heat=False, **kw):
    eao = lift.import_eao()
    tg = grid(T)
    names = ['P'] + (['H'] if heat else []) + (['G'] if fuel else [])
    nds = nodes(*names)
    pl = mk_plant(D, 'pl', nds, T, fuel=fuel, heat=heat, tg=tg, **kw)
    assets = [pl, mk_market(D, 'mP', nds[0], T, 'p')]
    pr = ['p']
    k = 1
    if heat:
        assets.append(mk_market(D, 'mH', nds[k], T, 'h')); pr.append('h'); k += 1
    if fuel:
        assets.append(mk_market(D, 'mG', nds[k], T, 'g')); pr.append('g')
    pf = eao.portfolio.Portfolio(assets)
    return Shape(pf, tg, prices_for(D, pr, T))


def pf_coarse(D, T=4, kind='contract', coarse='2h', win=None, ec=False, eff=None):
    """asset on a coarser frequency inside an hourly portfolio with a fine-grained market"""
    eao = lift.import_eao()
    tg = grid(T)
    nA, nB = nodes('A', 'B')
    if kind == 'contract':
        a = mk_market(D, 'co', nA, T, 'r', ec=ec, freq=coarse, win=win, tg=tg)
        assets = [a, mk_market(D, 'mA', nA, T, 'p')]
        pr = ['p', 'r']
    elif kind == 'transport':
        a = mk_transport(D, 'co', nA, nB, eff=eff, freq=coarse, win=win, tg=tg)
        assets = [mk_market(D, 'mA', nA, T, 'p'), a, mk_market(D, 'mB', nB, T, 'q')]
        pr = ['p', 'q']
    elif kind == 'storage':
        a = mk_storage(D, 'co', nA, eff=eff, freq=coarse, win=win, tg=tg, costs=ec)
        assets = [a, mk_market(D, 'mA', nA, T, 'p')]
        pr = ['p']
    else:
        raise KeyError(kind)
    pf = eao.portfolio.Portfolio(assets)
    return Shape(pf, tg, prices_for(D, pr, T))


def pf_periodic(D, T=4, kind='contract', period='2h', duration=None, ec=False, eff=None):
    eao = lift.import_eao()
    tg = grid(T)
    nA, nB = nodes('A', 'B')
    kw = dict(periodicity=period, periodicity_duration=duration)
    if kind == 'contract':
        a = mk_market(D, 'pe', nA, T, 'r', ec=ec, **kw)
        assets = [a, mk_market(D, 'mA', nA, T, 'p')]; pr = ['p', 'r']
    elif kind == 'transport':
        a = mk_transport(D, 'pe', nA, nB, eff=eff, **kw)
        assets = [mk_market(D, 'mA', nA, T, 'p'), a, mk_market(D, 'mB', nB, T, 'q')]; pr = ['p', 'q']
    elif kind == 'storage':
        a = mk_storage(D, 'pe', nA, eff=eff, costs=ec, **kw)
        assets = [a, mk_market(D, 'mA', nA, T, 'p')]; pr = ['p']
    else:
        raise KeyError(kind)
    pf = eao.portfolio.Portfolio(assets)
    return Shape(pf, tg, prices_for(D, pr, T))


def mk_orderbook(D, name, node, tg, orders, full_exec=False, capa_sym=False, wacc=0, skip=None, order_tz=None, as_frame=False, same_price=None):
    """orders: list of (k0, k1, capa, sign) with window in step indices (may lie outside the horizon);
    capacity concrete at Level A (it multiplies the execution variable in nodal rows), price symbolic"""
    eao = lift.import_eao()
    st, en, capa, price = [], [], [], []
    for i, (k0, k1, cp) in enumerate(orders):
        if skip is not None and i == skip:
            continue          # same book without this order (symbols of the others keep their names)
        s, e = window(tg, (k0, k1))
        if order_tz is not None:          # the same instants quoted in another time zone
            s, e = pd.Timestamp(s).tz_convert(order_tz), pd.Timestamp(e).tz_convert(order_tz)
        st.append(s); en.append(e)
        capa.append(D.coef('%s_capa%d' % (name, i), cp))
        price.append(D('%s_price%d' % (name, i)))
    if same_price is not None:
        price[same_price[1]] = price[same_price[0]]       # two orders quoted at the very same price
    od = {'start': st, 'end': en, 'capa': capa, 'price': price}
    mk_orderbook.last_orders = {k: list(v) for k, v in od.items()}       # what the user asked for (the reference reads this, not the object)
    if as_frame:
        od = pd.DataFrame({k: np.array(v, dtype=object) if k in ('capa', 'price') else v for k, v in od.items()})
    return eao.assets.OrderBook(name=name, nodes=node, orders=od, full_exec=full_exec, wacc=wacc)


def pf_orderbook(D, T=3, orders=((0, 2, 2.0), (1, 3, -1.5), (1, 2, 1.0)), full_exec=False, storage=True, wacc=False, ob_last=False, freq='h', late_companion=False, order_tz=None,
                 as_frame=False, same_price=None):
    eao = lift.import_eao()
    tg = grid(T, freq)
    (nA,) = nodes('A')
    w = D('wacc', lo=0) if wacc else 0
    ob = mk_orderbook(D, 'ob', nA, tg, orders, full_exec=full_exec, wacc=w, order_tz=order_tz, as_frame=as_frame, same_price=same_price)
    user_orders = {'ob': mk_orderbook.last_orders}
    assets = [ob, mk_market(D, 'mkt', nA, T, 'p', wacc=w)]
    if storage:
        assets.append(mk_storage(D, 'sto', nA, eff=None, costs=False, inflow=False, wacc=w))
    if late_companion:
        # an asset with its own window and discount rate, handled right before the order book
        assets.append(mk_market(D, 'late', nA, T, 'p', wacc=D('wacc_late', lo=0), win=(1, 2), tg=tg))
    if ob_last or late_companion:
        assets = assets[1:] + assets[:1]
    pf = eao.portfolio.Portfolio(assets)
    return Shape(pf, tg, prices_for(D, ['p'], T), meta=dict(user_orders=user_orders))


def pf_scaled(D, T=3, base='storage', fixed=False, win=None, unit='h', freq='h'):
    eao = lift.import_eao()
    tg = grid(T, freq, unit)
    nA, nB = nodes('A', 'B')
    if base == 'storage':
        b = mk_storage(D, 'base', nA, eff=0.75)
    elif base == 'transport':
        b = mk_transport(D, 'base', nA, nB, eff=0.5)
    elif base == 'contract':
        b = mk_market(D, 'base', nA, T, 'r', ec=True)
    elif base == 'periodic_contract':
        b = mk_market(D, 'base', nA, T, 'r', ec=True, periodicity='2h')      # (a horizon that ends inside a period: T odd)
    elif base == 'periodic_transport':
        b = mk_transport(D, 'base', nA, nB, eff=0.5, periodicity='2h')
    elif base == 'orderbook_full_exec':
        b = mk_orderbook(D, 'base', nA, tg, [(0, 2, 2.0), (1, T, -1.5)], full_exec=True)      # boolean execution variables under the scale
    elif base in ('orderbook_last_outside', 'orderbook_first_outside'):
        # an order without any step in the horizon keeps its (unmapped) variable: the scale variable comes after ALL variables of the base asset
        inside = [(0, 2, 2.0), (1, T, -1.5)]
        orders = inside + [(T + 2, T + 4, 1.0)] if base.endswith('last_outside') else [(-4, -1, 1.0)] + inside
        b = mk_orderbook(D, 'base', nA, tg, orders)
    elif base == 'take':
        lo = D('base_min', hi=0); hi = D('base_max', lo=0)
        b = eao.assets.Contract(name='base', nodes=nA, price='r', min_cap=lo, max_cap=hi,
                                max_take=mk_take(tg, 0, T, D('base_maxtake', lo=0)))
    else:
        raise KeyError(base)
    s, e = window(tg, win) if win is not None else (None, None)
    if fixed:
        sc = D('scale', lo=0)
        mn, mxs = sc, sc
    else:
        mn = D('scale_min', lo=0); mxs = D('scale_max', lo=0)
        D.assume(mn <= mxs)
    sa = eao.assets.ScaledAsset(name='sc', base_asset=b, min_scale=mn, max_scale=mxs,
                                norm_scale=D.coef('norm', 2.0, lo_strict=0), fix_costs=D('fixc', lo=0), start=s, end=e)
    assets = [sa, mk_market(D, 'mA', nA, T, 'p')]
    pr = ['p', 'r']
    if base in ('transport', 'periodic_transport'):
        assets.append(mk_market(D, 'mB', nB, T, 'q')); pr.append('q')
    pf = eao.portfolio.Portfolio(assets)
    return Shape(pf, tg, prices_for(D, pr, T))


def pf_structured(D, T=3, inner_win=None, outer_win=None, two_internal=False, inner_win_all=False, two_external=False, inner_orderbook=False):
    """StructuredAsset wrapping {storage on internal node I, transport I->E (, transport I->J, market J)}; outside: market on E"""
    eao = lift.import_eao()
    tg = grid(T)
    nI, nE, nJ = nodes('I', 'E', 'J')
    st = mk_storage(D, 'ist', nI, eff=0.75, win=inner_win, tg=tg)
    w2 = inner_win if inner_win_all else None
    tr = mk_transport(D, 'itr', nI, nE, eff=0.5, win=w2, tg=tg)
    inner = [st, tr]
    pr = ['p']
    if two_internal:
        inner.append(mk_transport(D, 'itr2', nJ, nI, eff=None, costs=False, win=w2, tg=tg))
        inner.append(mk_market(D, 'imk', nJ, T, 'q', win=w2, tg=tg))
        pr.append('q')
    if inner_orderbook:
        inner.append(mk_orderbook(D, 'iob', nI, tg, ((0, 2, 2.0), (1, T, -1.5))))      # variable names of an order book are numbers
    outside = []
    ext = nE
    if two_external:
        # a second connection to the outside: transport from the internal node to a second external node F
        (nF,) = nodes('F')
        inner.append(mk_transport(D, 'itrF', nI, nF, eff=None, win=w2, tg=tg))
        ext = [nE, nF]
        outside.append(mk_market(D, 'mF', nF, T, 'q')); pr.append('q') if 'q' not in pr else None
    ipf = eao.portfolio.Portfolio(inner)
    s, e = window(tg, outer_win) if outer_win is not None else (None, None)
    sa = eao.portfolio.StructuredAsset(name='struct', nodes=ext, portfolio=ipf, start=s, end=e)
    pf = eao.portfolio.Portfolio([sa, mk_market(D, 'mE', nE, T, 'p')] + outside)
    return Shape(pf, tg, prices_for(D, pr, T), meta=dict(inner=inner))


def pf_ext_transport(D, T=3, take=(0, 2), eff=0.5):
    eao = lift.import_eao()
    tg = grid(T)
    nA, nB = nodes('A', 'B')
    tr = mk_transport(D, 'xt', nA, nB, eff=eff, cls=eao.assets.ExtendedTransport,
                      max_take=mk_take(tg, take[0], take[1], D('xt_maxtake', lo=0)),
                      min_take=mk_take(tg, take[0], take[1], D('xt_mintake', lo=0)))
    pf = eao.portfolio.Portfolio([mk_market(D, 'mA', nA, T, 'p'), tr, mk_market(D, 'mB', nB, T, 'q')])
    return Shape(pf, tg, prices_for(D, ['p', 'q'], T))


def pf_names(D, T=3, names=('1x', 'x'), node_names=('A',), order=None, storage=False):
    """contracts with chosen (adversarial) names on chosen node names; optional permutation of the asset list"""
    eao = lift.import_eao()
    tg = grid(T)
    nds = nodes(*node_names)
    assets = []
    for i, nm in enumerate(names):
        assets.append(mk_market(D, nm, nds[i % len(nds)], T, 'p%d' % (i % 2), ec=(i == 0)))
    if storage:
        assets.append(mk_storage(D, 'sto', nds[-1], eff=0.75))
    if len(nds) > 1:
        for j in range(len(nds) - 1):
            assets.append(mk_transport(D, 'tr%d' % j, nds[j], nds[j + 1], eff=0.5))
    if order is not None:
        assets = [assets[i] for i in order]
    pf = eao.portfolio.Portfolio(assets)
    return Shape(pf, tg, prices_for(D, ['p0', 'p1'], T))


def pf_windows(D, T=4, wins=((0, 1), (0, 1), (2, 4), (2, 4)), two_nodes=False):
    """contracts with individual windows on one node (gaps in the node's active steps possible); optional transport to a second node"""
    eao = lift.import_eao()
    tg = grid(T)
    nA, nB = nodes('A', 'B')
    assets = []
    for i, w in enumerate(wins):
        assets.append(mk_market(D, 'w%d' % i, nA, T, 'p%d' % (i % 2), ec=(i == 0), win=w, tg=tg))
    if two_nodes:
        assets.append(mk_transport(D, 'tr', nA, nB, eff=0.5))
        assets.append(mk_market(D, 'mB', nB, T, 'p1'))
    pf = eao.portfolio.Portfolio(assets)
    return Shape(pf, tg, prices_for(D, ['p0', 'p1'], T))


def pf_caps_ts(D, T=3, wacc=False):
    """contract whose min/max capacity and extra costs are time series (columns of the price data), plus market and storage"""
    eao = lift.import_eao()
    tg = grid(T)
    (nA,) = nodes('A')
    w = D('wacc', lo=0) if wacc else 0
    prices = prices_for(D, ['p', 'r'], T)
    prices['capmin'] = D.arr('capmin', T, hi=0)
    prices['capmax'] = D.arr('capmax', T, lo=0)
    prices['ecs'] = D.arr('ecs', T, lo=0)
    ct = eao.assets.Contract(name='ct', nodes=nA, price='r', min_cap='capmin', max_cap='capmax', extra_costs='ecs', wacc=w)
    m = mk_market(D, 'mkt', nA, T, 'p', wacc=w)
    pf = eao.portfolio.Portfolio([ct, m])
    return Shape(pf, tg, prices)


def pf_uncoupled(D, T=4, freq='h', unit='h', wacc=False, orderbook=None, take=None, shift_hours=0, own_dates=False):
    """nothing couples time steps: markets on A and B, transport, multi-commodity contract (optional order book / take period)"""
    eao = lift.import_eao()
    tg = grid(T, freq, unit, start=T0 + dt.timedelta(hours=shift_hours))
    nA, nB = nodes('A', 'B')
    w = D('wacc', lo=0) if wacc else 0
    assets = [mk_market(D, 'mA', nA, T, 'p', ec=True, wacc=w), mk_transport(D, 'tr', nA, nB, eff=0.5, wacc=w),
              eao.assets.MultiCommodityContract(name='mc', nodes=[nA, nB], price='r', min_cap=D('mc_min', hi=0), max_cap=D('mc_max', lo=0),
                                                factors_commodities=[1.0, 0.5], wacc=w,
                                                **(dict(start=pd.Timestamp(tg.start).to_pydatetime(), end=pd.Timestamp(tg.end).to_pydatetime()) if own_dates else {}),
                                                **({} if take is None else dict(max_take=mk_take(tg, take[0], take[1], D('mc_maxtake', lo=0))))),
              mk_market(D, 'mB', nB, T, 'q', wacc=w)]
    if orderbook is not None:
        assets.append(mk_orderbook(D, 'ob', nA, tg, orderbook, wacc=w))
    pf = eao.portfolio.Portfolio(assets)
    return Shape(pf, tg, prices_for(D, ['p', 'q', 'r'], T))


def pf_caps_dict(D, T=4, wacc=False, tz=None):
    """contract whose capacities / extra costs are interval data (with and without 'end'; uncovered steps of the extra costs -> 0)"""
    eao = lift.import_eao()
    tg = grid(T, 'h', 'h', tz)
    (nA,) = nodes('A')
    w = D('wacc', lo=0) if wacc else 0
    def hh(k):      # wall clock of the k-th grid point (beyond the grid: extrapolated), naive as a user would write it
        p = window(tg, (k, k))[0]
        return pd.Timestamp(p).tz_localize(None).to_pydatetime()
    ct = eao.assets.Contract(name='ct', nodes=nA, price='r', wacc=w,
                             min_cap={'start': [hh(0), hh(1)], 'end': [hh(1), hh(9)], 'values': [D('cmin0', hi=0), D('cmin1', hi=0)]},
                             max_cap={'start': [hh(0), hh(2)], 'values': [D('cmax0', lo=0), D('cmax1', lo=0)]},
                             extra_costs={'start': [hh(1)], 'end': [hh(3)], 'values': [D('ec', lo=0)]})
    m = mk_market(D, 'mkt', nA, T, 'p', wacc=w)
    pf = eao.portfolio.Portfolio([ct, m])
    return Shape(pf, tg, prices_for(D, ['p', 'r'], T))


def pf_mixed_wacc(D, T=3, freq='h', unit='h'):
    """assets with different discount rates sharing one grid; assets WITHOUT discounting are handled after discounted ones"""
    eao = lift.import_eao()
    tg = grid(T, freq, unit)
    nA, nB = nodes('A', 'B')
    m1 = mk_market(D, 'm1', nA, T, 'p', ec=True, wacc=D('wacc1', lo=0))
    m0 = mk_market(D, 'm0', nA, T, 'q', wacc=0)
    tr = mk_transport(D, 'tr', nA, nB, eff=0.5, wacc=D('wacc2', lo=0))
    st = mk_storage(D, 'sto', nB, eff=0.75, wacc=0)
    mB = mk_market(D, 'mB', nB, T, 'r', wacc=D('wacc1', lo=0))
    pf = eao.portfolio.Portfolio([m1, m0, tr, st, mB])
    return Shape(pf, tg, prices_for(D, ['p', 'q', 'r'], T))


def pf_alternating(D, T=4):
    """node A is active only in the first half, node B only in the second half of the horizon (equal sizes)"""
    eao = lift.import_eao()
    tg = grid(T)
    nA, nB = nodes('A', 'B')
    h_ = T // 2
    # equal problem sizes in both halves, different content: the active transport (and its efficiency) changes
    assets = [mk_market(D, 'mA', nA, T, 'p', ec=True), mk_transport(D, 't1', nA, nB, eff=0.5, win=(0, h_), tg=tg),
              mk_transport(D, 't2', nA, nB, eff=0.75, win=(h_, T), tg=tg), mk_market(D, 'mB', nB, T, 'q')]
    pf = eao.portfolio.Portfolio(assets)
    return Shape(pf, tg, prices_for(D, ['p', 'q'], T))


def pf_early_node(D, T=4, win=(0, 2)):
    """the FIRST registered node has dispatch only inside `win` (its market and the transport leaving it); the second node is active throughout"""
    eao = lift.import_eao()
    tg = grid(T)
    nA, nB = nodes('A', 'B')
    mA = mk_market(D, 'mA', nA, T, 'p', win=win, tg=tg)
    tr = mk_transport(D, 'tr', nA, nB, eff=0.5, win=win, tg=tg)
    mB = mk_market(D, 'mB', nB, T, 'q', ec=True)
    st = mk_storage(D, 'sto', nB, eff=0.75)
    return Shape(eao.portfolio.Portfolio([mA, tr, mB, st]), tg, prices_for(D, ['p', 'q'], T))


def pf_linked(D, T=3, time_back=1, time_forward=0, tar=0, win_a1=None):
    """two plants inside a LinkedAsset (ga may dispatch only while gb has been on), market outside"""
    eao = lift.import_eao()
    tg = grid(T)
    (nP,) = nodes('P')
    ga = mk_plant(D, 'ga', [nP], T, price='p', fuel=False, mr=0, sym_cap=True, win=win_a1, tg=tg)      # win_a1: the linked asset lives in a window of its own
    gb = mk_plant(D, 'gb', [nP], T, price='q', fuel=False, mr=2, tar=tar, sym_cap=True)
    la = eao.portfolio.LinkedAsset(eao.portfolio.Portfolio([ga, gb]), asset1_variable=('ga', 'disp', 'P'), asset2_variable=('gb', 'bool_on', None),
                                   name='link', nodes=nP, time_back=time_back, time_forward=time_forward, asset2_time_already_running=tar)
    pf = eao.portfolio.Portfolio([la, mk_market(D, 'mP', nP, T, 'r')])
    return Shape(pf, tg, prices_for(D, ['p', 'q', 'r'], T))


def pf_plant_mincap_col(D, T=3):
    """plant whose minimum capacity is the name of a data column (nothing else forces on-variables), listed BEFORE two further assets"""
    eao = lift.import_eao()
    tg = grid(T)
    (nA,) = nodes('A')
    mx = D('pl_max', lo=0)
    pl = eao.assets.Plant(name='pl', nodes=[nA], price='p', min_cap='mincap', max_cap=mx)
    pr = prices_for(D, ['p', 'q'], T)
    pr['mincap'] = D.arr('mincap', T, lo_strict=0)
    if D.symbolic:
        for v_ in pr['mincap']:
            D.assume(v_ <= mx)
    pf = eao.portfolio.Portfolio([pl, mk_market(D, 'mkt', nA, T, 'q'), mk_market(D, 'pv', nA, T, 'p', ec=True)])
    return Shape(pf, tg, pr)


def pf_plant_minload(D, T=3, fuel=True, ramps=True, heat=False, win=None):
    """CHPAsset_with_min_load_costs (extra costs while running below a threshold): with a fuel node and start / shutdown ramp profiles"""
    eao = lift.import_eao()
    tg = grid(T)
    names = ['P'] + (['H'] if heat else []) + (['G'] if fuel else [])
    nds = nodes(*names)
    mn = D('pl_min', lo_strict=0); mx = D('pl_max', lo=0)
    D.assume(mn <= mx)
    kw = dict(name='pl', nodes=nds, price='p', min_cap=mn, max_cap=mx, start_costs=D('pl_sc', lo=0), running_costs=D('pl_rc', lo=0),
              min_load_threshhold=D('pl_thr', lo=0), min_load_costs=D('pl_mlc', lo=0), _no_heat=not heat)
    if fuel:
        kw.update(start_fuel=D('pl_sf', lo=0), fuel_efficiency=D.coef('pl_fe', 0.5, lo_strict=0), consumption_if_on=D('pl_cio', lo=0))
    if ramps:
        kw.update(start_ramp_lower_bounds=[1.0], start_ramp_upper_bounds=[1.5], shutdown_ramp_lower_bounds=[1.0], shutdown_ramp_upper_bounds=[2.0])
        if D.symbolic:
            D.assume(mx >= 2.0)
    if heat:
        kw.update(conversion_factor_power_heat=D.coef('pl_cf', 0.25, lo_strict=0), max_share_heat=D.coef('pl_msh', 2.0, lo=0))
    if win is not None:
        kw['start'], kw['end'] = window(tg, win)
    pl = eao.assets.CHPAsset_with_min_load_costs(**kw)
    assets = [pl, mk_market(D, 'mP', nds[0], T, 'p')]
    pr = ['p']
    k = 1
    if heat:
        assets.append(mk_market(D, 'mH', nds[k], T, 'h')); pr.append('h'); k += 1
    if fuel:
        assets.append(mk_market(D, 'mG', nds[k], T, 'g')); pr.append('g')
    return Shape(eao.portfolio.Portfolio(assets), tg, prices_for(D, pr, T))


PORTFOLIOS = dict(plant_minload=pf_plant_minload, plant_mincap_col=pf_plant_mincap_col, linked=pf_linked, early_node=pf_early_node, names=pf_names, caps_dict=pf_caps_dict, mixed_wacc=pf_mixed_wacc, alternating=pf_alternating, uncoupled=pf_uncoupled, caps_ts=pf_caps_ts, windows=pf_windows, contract_storage=pf_contract_storage, two_node=pf_two_node, multicommodity=pf_multicommodity,
                  contract_take=pf_contract_take, plant=pf_plant, coarse=pf_coarse, periodic=pf_periodic,
                  orderbook=pf_orderbook, scaled=pf_scaled, structured=pf_structured, ext_transport=pf_ext_transport)


def build_portfolio(D, shape, gridv=None, **kw):
    _OVERRIDE[0] = gridv
    try:
        return PORTFOLIOS[shape](D, **kw)
    finally:
        _OVERRIDE[0] = None
