"""C08 Only what lies inside the horizon and inside an asset's window matters.

(i)   Q2: the reported dispatch of every asset at steps outside [start, end) /\\ horizon is identically zero (symbolic x).
(ii)  Q3 both directions: portfolio WITH an element lying entirely outside the horizon (an asset of each class incl. Plant/CHP
      and coarse contracts, an order before/between/after in-horizon orders, a take period) vs the portfolio WITHOUT it:
      same feasible set up to the dropped (inert) variables, same value, same reported dispatch of everything else.
(iii) Q3 against the reference model for take periods placed inside / straddling either horizon end / straddling the asset
      window / outside: volumes prorated by the covered duration.
"""
import numpy as np
import pandas as pd
import z3

from .. import scen, common, sym, lpsem, lift, embed_lp, embed_ref, shapes, refmap, known
from ..sym import Sym, lift as zl

PROP = 'C08'
EXTRAS = ['contract', 'take_contract', 'storage', 'transport', 'multicommodity', 'plant', 'chp', 'orderbook', 'coarse_contract',
          'scaled_storage']
PLACES = {'before': (-5, -2), 'after': (7, 9), 'touching_end': (4, 6), 'touching_start': (-2, 0)}

QUICK_WIN = [('scaled', dict(T=3, base='storage', win=(1, 3))), ('structured', dict(T=3, inner_win=(0, 2), outer_win=(1, 3))), ('contract_storage', dict(T=4, win_s=(1, 3), win_c=(0, 3))), ('two_node', dict(T=3, win_t=(1, 2))),
             ('multicommodity', dict(T=4, take=(0, 6), win=(1, 3))), ('plant', dict(T=3, fuel=True, win=(1, 3))),
             ('coarse', dict(T=5, kind='contract', win=(1, 5))), ('contract_storage', dict(T=3, win_s=(-1, 2), win_c=(2, 6))),
             ('linked', dict(T=4, win_a1=(1, 4))),
             # windows that start / end between grid points
             ('contract_storage', dict(T=4, win_s=(0.5, 2.5), win_c=(1, 3.25))), ('two_node', dict(T=4, win_t=(1.75, 3.5)))]
THOROUGH_WIN = QUICK_WIN + [('structured', dict(T=3, inner_win=(0, 2), outer_win=(1, 3), inner_win_all=True)),
                            ('coarse', dict(T=6, kind='transport', eff=0.5, win=(-1, 5))), ('plant', dict(T=4, fuel=True, heat=True, win=(2, 4))),
                            ('windows', dict(T=5, wins=((0, 2), (1, 2), (3, 5), (4, 5)), two_nodes=True))]
TAKES = [('inside', (1, 3), None), ('straddle_end', (2, 7), None), ('straddle_start', (-2, 2), None), ('outside_after', (6, 8), None),
         ('outside_before', (-4, -1), None), ('straddle_window', (0, 4), (1, 3)), ('window_beyond_horizon', (2, 8), (-2, 9))]

BOUNDS = dict(quick='T=4 horizon; extra element of classes %s placed before/after the horizon; orders before/between/after; take placements %s'
              % (EXTRAS, [t[0] for t in TAKES]), thorough='all extras x all placements %s; window shapes %s' % (list(PLACES), [w[0] for w in THOROUGH_WIN]))
OUTSIDE = ['elements partly inside the horizon other than take periods and windows (covered by C02 / C13)', 'T>6']
TRUSTED = ['vf/refmodel.py for (iii)']


def cases(tier, seed):
    out = []
    wins = THOROUGH_WIN if tier == 'thorough' else QUICK_WIN
    for k, (shape, kw) in enumerate(wins):
        out.append(('window_%d_%s' % (k, shape), dict(kind='window', shape=shape, kw=kw)))
        # the same windows on other kinds of grid (window bounds are grid points of that grid)
        if shape not in ('coarse',):
            for gv in shapes.GRID_VARIANTS:
                if (shape.startswith('plant') or shape == 'linked') and gv.startswith('month_d'):
                    continue      # durations cannot be converted to steps on a calendar-month grid (pandas refuses 'MS')
                if tier == 'thorough' or (k, gv) in ((2, 'day_d_cet_dst'), (3, 'month_d'), (5, 'quarter_min')):
                    out.append(('window_%d_%s@%s' % (k, shape, gv), dict(kind='window', shape=shape, kw=dict(kw, gridv=gv))))
    places = list(PLACES) if tier == 'thorough' else ['before', 'after']
    for ex in EXTRAS + ['minload_plant']:
        for pl in places:
            if tier != 'thorough' and pl == 'after' and ex in ('transport', 'multicommodity', 'scaled_storage'):
                continue
            out.append(('extra_%s_%s' % (ex, pl), dict(kind='extra', extra=ex, place=pl)))
    for pos in ('first', 'middle', 'last'):
        for pl in (('before', 'after') if tier == 'thorough' else ('before',)):
            out.append(('order_%s_%s' % (pos, pl), dict(kind='order', pos=pos, place=pl)))
    for nm, tk, win in TAKES:
        out.append(('take_' + nm, dict(kind='take', take=tk, win=win)))
    # take period on a grid with unequal steps (DST day) for an asset that starts later than the horizon
    out.append(('take_dst_late_asset', dict(kind='take', take=(1, 6), win=(1, 9), freq=['d', '2021-03-26', '2021-03-30', 'CET'])))
    # take dates written in another time zone than the grid's: a period starting exactly at the horizon end lies outside, a straddling one is prorated
    cet = ['h', '2021-01-04 00:00', '2021-01-04 04:00', 'CET']
    out.append(('take_utc_dates_starting_at_horizon_end', dict(kind='take', take=(4, 6), win=None, freq=cet, take_tz='UTC')))
    out.append(('take_utc_dates_straddling_end', dict(kind='take', take=(2, 8), win=None, freq=cet, take_tz='UTC')))
    out.append(('take_utc_dates_ending_at_horizon_start', dict(kind='take', take=(-3, 0), win=None, freq=cet, take_tz='UTC')))
    out.append(('take_months_late_asset', dict(kind='take', take=(1, 3), win=(1, 3), freq=['MS', '2021-01-01', '2021-05-01', None], unit='d')))
    # ... and periods whose covered steps have another total length than the same number of steps at the start of the horizon
    out.append(('take_dst_late_asset_two_steps', dict(kind='take', take=(1, 3), win=(1, 9), freq=['d', '2021-03-26', '2021-03-30', 'CET'])))
    out.append(('take_months_asset_from_march', dict(kind='take', take=(2, 4), win=(2, 4), freq=['MS', '2021-01-01', '2021-05-01', None], unit='d')))
    out.append(('take_months_straddles_end', dict(kind='take', take=(2, 6), win=(1, 9), freq=['MS', '2021-01-01', '2021-05-01', None], unit='d')))
    # a window reaching beyond the horizon is the same as the window clipped to the horizon (identical problem, term by term)
    for ex in ('contract', 'take_contract', 'storage', 'transport', 'multicommodity', 'plant', 'scaled_storage'):
        for pl in (('both_ends',) if tier != 'thorough' else ('both_ends', 'start', 'end')):
            out.append(('straddle_%s_%s' % (ex, pl), dict(kind='straddle', extra=ex, place=pl)))
    # the problem of an asset with a window inside a longer horizon is the problem of the same asset on a horizon equal to the window
    # (nothing outside the window matters; steps counted from the horizon start) -- discount rate 0
    for ex in EXTRAS + ['storage_blocks', 'minload_plant']:
        for w in (((2, 5),) if tier != 'thorough' and ex != 'storage_blocks' else ((2, 5), (1, 3), (3, 4)) if ex not in ('storage_blocks', 'minload_plant') else ((1, 5), (2, 5))):
            out.append(('horizon_is_window_%s_%d_%d' % (ex, w[0], w[1]), dict(kind='straddle', extra=ex, place='horizon_is_window', win=list(w))))
    out.append(('takeperiod_outside', dict(kind='extra', extra='takeperiod', place='after')))
    # a portfolio that consists of nothing but an order book whose orders all lie outside the horizon: set-up, optimisation (solver stubbed,
    # duals filed by the real code) and output work, value and dispatch are zero
    for pl in ('before', 'after'):
        out.append(('alone_orderbook_all_orders_%s' % pl, dict(kind='alone', extra='orderbook', place=pl)))
    # a coarse interval straddling the horizon counts with its covered part only (decided with the C13 machinery: option problem vs
    # fine problem + equalities, whose step lengths are the covered fine steps)
    out.append(('coarse_interval_straddles_start', dict(kind='coarse13', opt='coarse', kind13='contract', T=4, win=(-1, 5))))
    out.append(('coarse_window_ends_inside_unaligned', dict(kind='coarse13', opt='coarse', kind13='contract', T=6, win=(1, 4), ec=True)))
    out.append(('coarse_interval_straddles_end', dict(kind='coarse13', opt='coarse', kind13='contract', T=5, win=(2, 9), ec=True)))
    # sequences of calls on the same objects (decided with C10's history machinery: the final problem equals that of fresh objects)
    # -- take periods partly outside the horizon are prorated by the covered duration in every call (rolling horizons on the same objects)
    out.append(('history_take_prorated_again_after_an_earlier_setup', common.delegated('c10', pf='dicts', final='h', histories=[['short'], ['same']])))
    return out


# ------------------------------------------------------------------------------------------------ builders
def base_assets(D, T, tg, nA, nB):
    return [shapes.mk_market(D, 'mA', nA, T, 'p', ec=True), shapes.mk_storage(D, 'sto', nB, eff=0.75),
            shapes.mk_transport(D, 'tr', nA, nB, eff=0.5), shapes.mk_market(D, 'mB', nB, T, 'q')]


def mk_extra(D, kind, T, tg, nA, nB, win):
    eao = lift.import_eao()
    s, e = shapes.window(tg, win)
    if kind == 'contract':
        return shapes.mk_market(D, 'ex', nA, T, 'p', ec=True, win=win, tg=tg)
    if kind == 'take_contract':
        return eao.assets.Contract(name='ex', nodes=nA, price='p', min_cap=D('ex_min', hi=0), max_cap=D('ex_max', lo=0), start=s, end=e,
                                   min_take=shapes.mk_take(tg, win[0], win[1], D('ex_mintake', hi=0)))
    if kind == 'storage':
        return shapes.mk_storage(D, 'ex', nA, eff=0.75, win=win, tg=tg)
    if kind == 'minload_plant':
        mn = D('ex_min', lo_strict=0); mx = D('ex_max', lo=0)
        D.assume(mn <= mx)
        thr = {'start': [shapes.tstep(tg, k) for k in range(tg.T)], 'values': [D('ex_thr%d' % k, lo=0) for k in range(tg.T)]} if win[0] >= 0 and win[1] <= tg.T else D('ex_thr', lo=0)
        return eao.assets.CHPAsset_with_min_load_costs(name='ex', nodes=[nA], price='p', min_cap=mn, max_cap=mx, start_costs=D('ex_sc', lo=0),
                                                       min_load_threshhold=D('ex_thr', lo=0), min_load_costs=D('ex_mlc', lo=0), _no_heat=True, start=s, end=e)
    if kind == 'storage_blocks':
        return shapes.mk_storage(D, 'ex', nA, eff=None, costs=False, win=win, tg=tg, block_size='2h')
    if kind == 'transport':
        return shapes.mk_transport(D, 'ex', nA, nB, eff=0.5, win=win, tg=tg)
    if kind == 'multicommodity':
        return eao.assets.MultiCommodityContract(name='ex', nodes=[nA, nB], price='p', min_cap=D('ex_min', hi=0), max_cap=D('ex_max', lo=0),
                                                 factors_commodities=[1.0, 0.5], start=s, end=e)
    if kind == 'plant':
        return shapes.mk_plant(D, 'ex', [nA, nB], T, price='p', fuel=True, heat=False, mr=2, ramp=True, win=win, tg=tg)
    if kind == 'chp':
        (nG,) = shapes.nodes('G')
        return shapes.mk_plant(D, 'ex', [nA, nB, nG], T, price='p', fuel=True, heat=True, md=2, tao=1, win=win, tg=tg)
    if kind == 'orderbook':
        return shapes.mk_orderbook(D, 'ex', nA, tg, ((win[0], win[1], 2.0), (win[0], win[0] + 1, -1.0)))
    if kind == 'coarse_contract':
        return shapes.mk_market(D, 'ex', nA, T, 'p', win=win, tg=tg, freq='2h')
    if kind == 'scaled_storage':
        b = shapes.mk_storage(D, 'exbase', nA, eff=0.75, win=win, tg=tg)     # (a window on the wrapper alone: see KF-C08-scaledwin)
        return eao.assets.ScaledAsset(name='ex', base_asset=b, min_scale=0., max_scale=D('ex_smax', lo=0), norm_scale=2.0,
                                      fix_costs=D('ex_fix', lo=0), start=s, end=e)
    raise KeyError(kind)


def build_pair(D, kind, T=4, **kw):
    """returns (pf_with, pf_without, tg, prices, dropped asset names)"""
    eao = lift.import_eao()
    tg = shapes.grid(T)
    nA, nB = shapes.nodes('A', 'B')
    prices = shapes.prices_for(D, ['p', 'q'], T)
    if kind == 'extra':
        win = PLACES[kw['place']]
        if kw['extra'] == 'takeperiod':
            def ct(with_take):
                args = dict(name='ct', nodes=nA, price='p', min_cap=D('ct_min', hi=0), max_cap=D('ct_max', lo=0), extra_costs=D('ct_ec', lo=0))
                if with_take:
                    args['min_take'] = shapes.mk_take(tg, win[0], win[1], D('ct_mintake', hi=0))
                    args['max_take'] = shapes.mk_take(tg, win[0], win[1], D('ct_maxtake', lo=0))
                return eao.assets.Contract(**args)
            w = eao.portfolio.Portfolio(base_assets(D, T, tg, nA, nB) + [ct(True)])
            wo = eao.portfolio.Portfolio(base_assets(D, T, tg, nA, nB) + [ct(False)])
            return w, wo, tg, prices, []
        ex = mk_extra(D, kw['extra'], T, tg, nA, nB, win)
        ba = base_assets(D, T, tg, nA, nB)
        w = eao.portfolio.Portfolio(ba[:2] + [ex] + ba[2:])          # the extra asset sits in the middle of the list
        wo = eao.portfolio.Portfolio(base_assets(D, T, tg, nA, nB))
        if kw['extra'] == 'chp':
            pass
        return w, wo, tg, prices, ['ex']
    if kind == 'order':
        inside = [(0, 2, 2.0), (1, 4, -1.5)]
        win = PLACES[kw['place']]
        outside = (win[0], win[1], 1.0)
        pos = kw['pos']
        orders = [outside] + inside if pos == 'first' else (inside[:1] + [outside] + inside[1:] if pos == 'middle' else inside + [outside])
        w = eao.portfolio.Portfolio([shapes.mk_orderbook(D, 'ob', nA, tg, orders)] + base_assets(D, T, tg, nA, nB))
        # the same book without the outside order: order variables are named by position -> rename keys by the order's window
        wo = eao.portfolio.Portfolio([shapes.mk_orderbook(D, 'ob', nA, tg, orders, skip=orders.index(outside))] + base_assets(D, T, tg, nA, nB))
        return w, wo, tg, prices, []
    raise KeyError(kind)


# ------------------------------------------------------------------------------------------------ run
def _c13_kw(kw):
    kw = dict(kw)
    kw['kind'] = kw.pop('kind13')
    return kw


STRADDLE = {'both_ends': ((-2, 6), (0, 4)), 'start': ((-3, 3), (0, 3)), 'end': ((1, 9), (1, 4))}


def build_straddle(D, extra, place, T=4):
    eao = lift.import_eao()
    tg = shapes.grid(T)
    nA, nB = shapes.nodes('A', 'B')
    prices = shapes.prices_for(D, ['p', 'q'], T)
    wide, clipped = STRADDLE[place]
    out = []
    for w in (wide, clipped):
        ex = mk_extra(D, extra, T, tg, nA, nB, w)
        if extra == 'take_contract':
            # the take period itself stays the same (inside the horizon); only the asset window differs
            ex.min_take = shapes.mk_take(tg, 1, 3, D('ex_mintake', hi=0))
        out.append(eao.portfolio.Portfolio(base_assets(D, T, tg, nA, nB) + [ex]))
    return out[0], out[1], tg, prices


def build_hwin(D, extra, win, T=5):
    """the asset with window [k0,k1) on a T-step horizon, and the same asset on the horizon [k0,k1) itself (problems of the asset alone)"""
    eao = lift.import_eao()
    tg = shapes.grid(T)
    nA, nB = shapes.nodes('A', 'B')
    prices = shapes.prices_for(D, ['p', 'q'], T)
    k0, k1 = win
    ex = mk_extra(D, extra, T, tg, nA, nB, win)
    tg2 = eao.assets.Timegrid(pd.Timestamp(shapes.tstep(tg, k0)).to_pydatetime(), pd.Timestamp(shapes.tstep(tg, k1)).to_pydatetime(), freq=tg.freq, main_time_unit=tg.main_time_unit)
    ex2 = mk_extra(D, extra, k1 - k0, tg2, nA, nB, (0, k1 - k0))
    a = ex.setup_optim_problem(prices, tg)
    b = ex2.setup_optim_problem({k: v[k0:k1] for k, v in prices.items()}, tg2)
    b.mapping = b.mapping.copy()
    b.mapping['time_step'] = b.mapping['time_step'] + k0        # steps of the small horizon counted on the large one
    if 'type' in b.mapping.columns:
        # the scale variable of a scaled asset is booked at the first step of the HORIZON by design ("assign fix costs to first time step")
        b.mapping.loc[b.mapping['type'] == 'size', 'time_step'] = 0
    return a, b


def run_straddle(rec, seed, extra, place, win=None):
    from .c10 import compare

    def build(D):
        if place == 'horizon_is_window':
            return build_hwin(D, extra, tuple(win))
        w, c, tg, prices = build_straddle(D, extra, place)
        return w.setup_optim_problem(prices, tg), c.setup_optim_problem(prices, tg)
    res = lift.explore_build(build, level='A')
    rec.paths = len(res)
    validated = False
    for pi, (path, D) in enumerate(res):
        P = 'p%d' % pi
        if path.exc is not None:
            if common.is_rejection(path.exc):
                rec.rejected_paths += 1
                continue
            common.crash_candidate(rec, P + '/crash', path, D, info=dict(kind='crash'))
            continue
        a, b = path.result
        base = list(D.pre) + path.pc + sym.atom_constraints()
        if rec.vacuity(P, base) is None:
            continue
        rec.twin(P, base, z3.BoolVal(False))
        goals = compare(rec, P, base, a, b)
        nm = P + ('/window_on_long_horizon_equals_horizon_equal_to_window' if place == 'horizon_is_window' else '/wide_window_equals_clipped_window')
        if not goals:
            rec.obligations.append(dict(name=nm, verdict='unsat', secs=0, form='Q2'))
            rec.distinct.add(nm)
        else:
            rec.prove_each(nm, base, [(lab, g, dict(kind='straddle', label=lab)) for lab, g in goals], form='Q2')
        if not validated:
            from .. import obs
            env = common.generic_point(base, D.names, seed)
            if env is not None:
                for n_ in D.names:
                    env.setdefault(n_, 0.0)
                rec.validations.append(dict(env=env, lifted=obs.to_jsonable(dict(wide=obs.problem_obs(a)), env)))
                validated = True
    return rec.result()


def run_case(case_id, tier, seed, kind, **kw):
    if kind == 'straddle':
        return run_straddle(lpsem.Rec(PROP, case_id), seed, **kw)
    if kind == 'coarse13':
        from . import c13
        res = c13.run_case(case_id, tier, seed, **_c13_kw(kw))
        res['prop'] = PROP
        return res
    rec = lpsem.Rec(PROP, case_id)
    if kind == 'alone':
        return run_alone(rec, seed, **kw)
    if kind == 'window':
        return run_window(rec, seed, **kw)
    if kind == 'take':
        return run_take(rec, seed, **kw)
    return run_pair(rec, seed, kind, **kw)


def build_alone(D, extra, place, T=4):
    eao = lift.import_eao()
    tg = shapes.grid(T)
    nA, nB = shapes.nodes('A', 'B')
    ex = mk_extra(D, extra, T, tg, nA, nB, PLACES[place])
    return eao.portfolio.Portfolio([ex]), tg, shapes.prices_for(D, ['p', 'q'], T)


def run_alone(rec, seed, extra, place):
    """nothing but inert elements: the whole chain set-up -> optimize (real code, solver stubbed) -> extract_output works and reports zeros"""
    eao = lift.import_eao()
    from . import c03

    def build(D):
        pf, tg, prices = build_alone(D, extra, place)
        op = pf.setup_optim_problem(prices, tg)
        c03.with_stub('optimal')
        res = op.optimize()
        out = eao.io.extract_output(pf, op, res)
        return pf, tg, op, res, out
    paths = lift.explore_build(build, level='A')
    rec.paths = len(paths)
    for pi, (path, D) in enumerate(paths):
        P = 'p%d' % pi
        if path.exc is not None:
            if common.is_rejection(path.exc):
                rec.rejected_paths += 1
                continue
            common.crash_candidate(rec, P + '/crash', path, D, info=dict(kind='alone'))
            continue
        pf, tg, op, res, out = path.result
        L = lpsem.LP(op)
        base = list(D.pre) + path.pc + sym.atom_constraints()
        x = [zl(v) for v in res.x]
        assume = base + L.feas(x)
        if rec.vacuity(P, assume) is None:
            continue
        rec.twin(P + '/zero', assume, z3.BoolVal(False))
        goals = []
        for tab in ('dispatch', 'DCF'):
            for col in out[tab].columns:
                for t in range(tg.T):
                    v = out[tab][col].values[t]
                    if isinstance(v, Sym) or (v == v and v != 0):
                        goals.append(('%s/%s/%d' % (tab, col, t), zl(v) == 0, dict(kind='alone_zero', tab=tab, col=col, t=t)))
        goals.append(('value', L.val(x) == 0, dict(kind='alone_zero', tab='value')))
        rec.prove_each(P + '/reported_zero', assume, goals, form='Q1', info=dict(kind='alone'))
    return rec.result()


def _win_steps(a, tg):
    tp = list(tg.timepoints)
    s, e = refmap._ts(a.start, tg.tz), refmap._ts(a.end, tg.tz)
    return [t for t in range(tg.T) if (s is None or tp[t] >= s) and (e is None or tp[t] < e)]


def run_window(rec, seed, shape, kw):
    res = scen.explore(shape, kw, level='A')
    rec.paths = len(res)
    validated = False
    for pi, (path, D) in enumerate(res):
        P = 'p%d' % pi
        if path.exc is not None:
            if common.is_rejection(path.exc):
                rec.rejected_paths += 1
                continue
            if shape == 'linked' and kw.get('win_a1') is not None and type(path.exc).__name__ == 'IndexError' and known.is_open('KF-C08-linked-window'):
                # recorded finding: the link rows are written for steps 0..T-1 of the horizon whatever the window of the linked asset
                rec.known_hits.append(('KF-C08-linked-window', P + '/crash', 'IndexError: %s' % str(path.exc)[:80]))
                rec.obligations.append(dict(name=P + '/crash', verdict='sat', secs=0, form='crash'))
                continue
            common.crash_candidate(rec, P + '/crash', path, D, info=dict(kind='window'))
            continue
        sc = path.result
        assume = list(D.pre) + path.pc + sym.atom_constraints()
        if rec.vacuity(P, assume) is None:
            continue
        disp = sc.out['dispatch']
        single = len(sc.sh.portf.nodes) == 1
        tg = sc.sh.tg
        first = True
        for a in sc.sh.portf.assets:
            inside = set(_win_steps(a, tg))
            for n in a.nodes:
                col = a.name if single else '%s (%s)' % (a.name, n.name)
                for t in range(tg.T):
                    if t in inside:
                        if first:
                            rec.twin(P + '/inside_live', assume, zl(disp[col].values[t]) == 0)
                            first = False
                        continue
                    v = zl(disp[col].values[t])
                    kf = 'KF-C08-scaledwin' if (type(a).__name__ == 'ScaledAsset' and known.is_open('KF-C08-scaledwin')) else None
                    if type(a).__name__ == 'StructuredAsset' and known.is_open('KF-C08-structwin'):
                        kf = 'KF-C08-structwin'
                    rec.prove(P + '/outside_zero/%s/%d' % (col, t), assume, v == 0, form='Q2', info=dict(kind='window', col=col, t=t), known=kf)
        if not validated:
            validated = scen.validation_request(rec, sc, D, path, seed)
    return rec.result()


def run_take(rec, seed, take, win, freq='h', unit='h', take_tz=None):
    kw = dict(T=4, take=take, win=win, freq=tuple(freq) if isinstance(freq, list) else freq, unit=unit, take_tz=take_tz)
    res = scen.explore('contract_take', kw, level='A', with_output=False)
    rec.paths = len(res)
    for pi, (path, D) in enumerate(res):
        P = 'p%d' % pi
        if path.exc is not None:
            if common.is_rejection(path.exc):
                rec.rejected_paths += 1
                continue
            common.crash_candidate(rec, P + '/crash', path, D, info=dict(kind='take'))
            continue
        sc = path.result
        embed_ref.check(rec, P, D, path, sc.sh, sc.op, extra_info=dict(kind='take'))
    return rec.result()


def _order_rename(orders_w, skip):
    """order variables are named by their position in the list; map names of the book without the outside order"""
    def ren(k):
        asset, vn, t, node = k
        if asset == 'ob':
            j = int(vn)
            return (asset, str(j if j < skip else j + 1), t, node)
        return k
    return ren


def run_pair(rec, seed, kind, **kw):
    eao = lift.import_eao()

    def build(D):
        w, wo, tg, prices, dropped = build_pair(D, kind, **kw)
        opw = w.setup_optim_problem(prices, tg)
        xw = common.sym_x(len(opw.c), 'x')
        outw = eao.io.extract_output(w, opw, eao.optimization.Results(value=Sym.var('value'), x=xw, duals=None))
        opo = wo.setup_optim_problem(prices, tg)
        return w, wo, tg, prices, dropped, opw, xw, outw, opo
    res = lift.explore_build(build, level='A')
    rec.paths = len(res)
    validated = False
    for pi, (path, D) in enumerate(res):
        P = 'p%d' % pi
        if path.exc is not None:
            if common.is_rejection(path.exc):
                rec.rejected_paths += 1
                continue
            common.crash_candidate(rec, P + '/crash', path, D, info=dict(kind='pair'))
            continue
        w, wo, tg, prices, dropped, opw, xw, outw, opo = path.result
        Pw, Po = lpsem.LP(opw), lpsem.LP(opo)
        base = list(D.pre) + path.pc + sym.atom_constraints()
        x = [zl(v) for v in xw]
        ren = None
        if kind == 'order':
            inside_n = 2
            skip = {'first': 0, 'middle': 1, 'last': 2}[kw['pos']]
            ren = _order_rename(None, skip)
        # with -> without : drop the element's variables
        terms, missing = embed_lp.phi_by_keys(Pw, x, Po, rename_Q=ren)
        if missing:
            rec.obligations.append(dict(name=P + '/keys', verdict='sat', secs=0, form='struct'))
            rec.candidates.append(dict(name=P + '/keys', env={}, info=dict(kind='keys', missing=missing), form='struct'))
            continue
        embed_lp.embed(rec, P + '/with2without', base, Pw, x, Po, terms, rel='==', info=dict(kind='pair'))
        # without -> with : the element's variables are put to 0
        y = Po.mk_x('y')
        terms2, missing2 = embed_lp.phi_by_keys(Po, y, Pw, rename_P=ren, default=z3.RealVal(0))
        embed_lp.embed(rec, P + '/without2with', base, Po, y, Pw, terms2, rel='==', info=dict(kind='pair'))
        # reported dispatch of everything else is the same
        xo = np.empty(Po.n, dtype=object)
        for i, t_ in enumerate(terms):
            xo[i] = Sym(t_)
        outo = eao.io.extract_output(wo, opo, eao.optimization.Results(value=Sym.var('value'), x=xo, duals=None))
        assume = base + Pw.feas(x)
        dw, do = outw['dispatch'], outo['dispatch']
        goals = []
        for col in do.columns:
            if col not in dw.columns:
                goals.append(('dispatch_col/' + col, z3.BoolVal(False), dict(kind='dispatch', col=col)))
                continue
            for t in range(tg.T):
                a_, b_ = zl(dw[col].values[t]), zl(do[col].values[t])
                if not z3.simplify(a_).eq(z3.simplify(b_)):
                    goals.append(('dispatch/%s/%d' % (col, t), a_ == b_, dict(kind='dispatch', col=col, t=t)))
        for col in dw.columns:
            if col not in do.columns:
                for t in range(tg.T):
                    goals.append(('dropped_dispatch/%s/%d' % (col, t), zl(dw[col].values[t]) == 0, dict(kind='dispatch0', col=col, t=t)))
        if goals:
            rec.prove_each(P + '/reported', assume, goals, form='Q2', info=dict(kind='pair'))
        if not validated:
            from .. import obs
            names = list(D.names) + ['x%d' % i for i in range(Pw.n)]
            env = common.generic_point(assume, names, seed)
            if env is not None:
                for nm in names:
                    env.setdefault(nm, 0.0)
                env.setdefault('value', 0.0)
                rec.validations.append(dict(env=env, lifted=obs.to_jsonable(dict(with_=obs.problem_obs(opw), without=obs.problem_obs(opo),
                                                                                  out=obs.output_obs(outw)), env)))
                validated = True
    return rec.result()


# ------------------------------------------------------------------------------------------------ pristine
def observe(case, kwargs, env, rq):
    from .. import obs
    eao = lift.import_eao()
    D = lift.Domain(theta=env)
    kw = dict(kwargs)
    kind = kw.pop('kind')
    if kind == 'coarse13':
        from . import c13
        return c13.observe(case, _c13_kw(kw), env, rq)
    if kind == 'window':
        sc = scen.run(D, kw['shape'], kw['kw'], None, True, env=env)
        o = scen.observation(sc)
        return o
    if kind == 'take':
        fq = kw.get('freq', 'h')
        sc = scen.run(D, 'contract_take', dict(T=4, take=kw['take'], win=kw['win'], freq=tuple(fq) if isinstance(fq, list) else fq, unit=kw.get('unit', 'h'), take_tz=kw.get('take_tz')), None, False, env=env)
        return embed_ref.observe(sc.sh, sc.op, env, rq)
    if kind == 'straddle' and kw.get('place') == 'horizon_is_window':
        from .. import obs as _obs
        a, b = build_hwin(D, kw['extra'], tuple(kw['win']))
        o = dict(wide=_obs.problem_obs(a))
        if rq.get('kind') == 'replay':
            o['clipped'] = _obs.problem_obs(b)
        return o
    if kind == 'straddle':
        w, c, tg, prices = build_straddle(D, kw['extra'], kw['place'])
        a = w.setup_optim_problem(prices, tg)
        o = dict(wide=obs.problem_obs(a))
        if rq.get('kind') == 'replay':
            o['clipped'] = obs.problem_obs(c.setup_optim_problem(prices, tg))
        return o
    if kind == 'alone':
        # the real chain with the real solver
        pf, tg, prices = build_alone(D, kw['extra'], kw['place'])
        op = pf.setup_optim_problem(prices, tg)
        res = op.optimize()
        out = eao.io.extract_output(pf, op, res)
        return dict(value=None if isinstance(res, str) else float(res.value), out=obs.output_obs(out))
    w, wo, tg, prices, dropped = build_pair(D, kind, **kw)
    opw = w.setup_optim_problem(prices, tg)
    xw = common.concrete_x(env, len(opw.c))
    outw = eao.io.extract_output(w, opw, eao.optimization.Results(value=float(env.get('value', 0.0)), x=xw, duals=None))
    opo = wo.setup_optim_problem(prices, tg)
    o = dict(with_=obs.problem_obs(opw), without=obs.problem_obs(opo), out=obs.output_obs(outw))
    if rq.get('kind') == 'replay':
        vw, sw = embed_lp.optimum(opw)
        vo, so = embed_lp.optimum(opo)
        o.update(v_with=vw, s_with=sw, v_without=vo, s_without=so)
        info = rq.get('info', {})
        ren = _order_rename(None, {'first': 0, 'middle': 1, 'last': 2}[kw['pos']]) if kind == 'order' else None
        if str(info.get('emb', '')).endswith('with2without'):
            o['nums'] = embed_lp.replay_keys(opw, opo, env, 'x', rename_Q=ren)
        elif str(info.get('emb', '')).endswith('without2with'):
            o['nums'] = embed_lp.replay_keys(opo, opw, env, 'y', rename_P=ren)
        # reported dispatch at the real optima of both
        rw = opw.optimize(); ro = opo.optimize()
        if not isinstance(rw, str) and not isinstance(ro, str):
            o['disp_with'] = obs.output_obs(eao.io.extract_output(w, opw, rw))['dispatch']
            o['disp_without'] = obs.output_obs(eao.io.extract_output(wo, opo, ro))['dispatch']
    return o


def judge(case, kwargs, cand, ans):
    info = cand.get('info', {})
    if kwargs.get('kind') == 'coarse13':
        from . import c13
        return c13.judge(case, _c13_kw({k: v for k, v in kwargs.items() if k != 'kind'}), cand, ans)
    if cand.get('form') == 'crash' or 'crash' in info:
        return (True, 'raises on an in-domain input: ' + ans['error'][:200]) if 'error' in ans else (False, 'no exception')
    if 'dir' in info or info.get('kind') == 'keys':
        return embed_ref.judge(cand, ans)
    if 'error' in ans:
        return None, ans['error']
    o = ans['obs']
    if info.get('kind') in ('alone', 'alone_zero'):
        bad = []
        if o.get('value') is None or abs(o['value']) > 1e-7:
            bad.append('value %s' % o.get('value'))
        for tab in ('dispatch', 'DCF'):
            for col, vals in o['out'][tab].items():
                if any(v is not None and abs(v) > 1e-7 for v in vals):
                    bad.append('%s column %s not zero' % (tab, col))
        return (True, 'portfolio of inert elements only: ' + '; '.join(bad)) if bad else (False, 'value and tables are zero on the unshimmed code')
    k = info.get('kind')
    if k == 'straddle':
        from .. import replay
        d = replay.diff(o['wide'], o['clipped'])
        return bool(d), 'the part of the window outside the horizon changes the problem: %s' % d
    if k == 'window':
        v = o['output']['dispatch'][info['col']][info['t']]
        # any x shows it: the output is linear in x, use the witness
        return abs(v or 0.0) > 1e-9, 'asset column %s reports dispatch %.6g at step %d outside its window' % (info['col'], v or 0.0, info['t'])
    if k == 'keys':
        return True, 'variables of the portfolio without the element have no counterpart: %s' % info['missing']
    bad, text = embed_lp.judge_values(o.get('v_with'), o.get('s_with'), o.get('v_without'), o.get('s_without'), '==', what=('with', 'without'))
    if bad:
        return True, text
    if 'nums' in o and 'label' in info:
        what = ('with', 'without') if str(info.get('emb', '')).endswith('with2without') else ('without', 'with')
        return embed_lp.judge_numbers(o['nums'], info.get('label'), '==', what=what)
    if k == 'dispatch0':
        v = o['out']['dispatch'][info['col']][info['t']]
        return abs(v or 0.0) > 1e-9, 'outside element reports dispatch %.6g (%s step %d)' % (v or 0.0, info['col'], info['t'])
    return False, text
