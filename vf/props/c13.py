"""C13 Coarse asset frequency and periodicity equal the fine problem plus equalities.

Metamorphic reference built from the real code: the same asset WITHOUT the option (lifted) plus the defining equalities
  coarse  : dispatch rate x_t/dt_t equal within each coarse interval (=> volume X_k spread by w_t = dt_t / sum of the covered dt)
  periodic: equal dispatch at the same sub-period position within a duration; bounds of merged variables = group mean ("we
            average l & u"), costs summed
Q3 both directions between the option problem and that reference, inside a portfolio with a fine-grained market (wacc = 0):
  option -> fine : phi(X)_t = X_k * w_t  resp.  x_t = Y_g            is feasible for the fine problem, same value
  fine+equalities -> option : X_k = sum_t x_t resp. Y_g = x_first    is feasible for the option problem, same value
Q1: the reported dispatch rate (real extract_output) is constant within every coarse interval / identical across periods.
Interval and group structure are recomputed by the harness from the grid points.
"""
import numpy as np
import pandas as pd
import z3

from .. import scen, common, sym, lpsem, lift, embed_lp, shapes, refmap, known
from ..sym import Sym, lift as zl, ratval

PROP = 'C13'


def _k(cid, **kw):
    return (cid, kw)


QUICK = [
    _k('coarse_contract', opt='coarse', kind='contract', T=4),
    _k('coarse_contract_spread', opt='coarse', kind='contract', T=4, ec=True),
    _k('coarse_contract_win_unaligned', opt='coarse', kind='contract', T=5, win=(1, 5)),
    _k('periodic_ext_transport', opt='periodic', kind='ext_transport', T=6, eff=0.5, costs=True),
    _k('coarse_ext_transport', opt='coarse', kind='ext_transport', T=4, eff=0.5),
    _k('periodic_storage_duration_window_offset', opt='periodic', kind='storage', T=8, eff=0.75, duration='4h', win=(2, 8)),
    _k('periodic_contract_duration_window_offset', opt='periodic', kind='contract', T=8, ec=True, duration='4h', win=(1, 7)),
    _k('coarse_contract_discounted', opt='coarse', kind='contract', T=4, ec=True, wacc=True, freq='d', coarse='2d'),
    _k('coarse_transport_discounted', opt='coarse', kind='transport', T=4, eff=0.5, costs=True, wacc=True, freq='d', coarse='2d'),
    _k('coarse_storage_discounted', opt='coarse', kind='storage', T=4, eff=0.75, wacc=True, freq='d', coarse='2d'),
    _k('coarse_contract_ends_inside_unaligned', opt='coarse', kind='contract', T=6, win=(1, 4), ec=True),
    _k('coarse_transport_ends_inside_unaligned', opt='coarse', kind='transport', T=6, win=(0, 3), eff=0.5),
    _k('coarse_transport_cost_series_window_ends_before_horizon', opt='coarse', kind='transport', T=6, win=(0, 4), eff=0.5, costs=True, cost_ts=True),
    _k('coarse_transport_cost_series_window_starts_late', opt='coarse', kind='transport', T=6, win=(2, 6), eff=0.5, cost_ts=True),
    _k('coarse_contract_ends_inside_after_another_coarse_asset', opt='coarse', kind='contract', T=4, win=(0, 3), ec=True, other_coarse=True),
    _k('coarse_contract_straddles_start', opt='coarse', kind='contract', T=4, win=(-1, 5)),
    _k('coarse_transport', opt='coarse', kind='transport', T=4, eff=0.5),
    _k('coarse_storage_eff', opt='coarse', kind='storage', T=4, eff=0.75),
    _k('coarse_multicommodity', opt='coarse', kind='multicommodity', T=4),
    _k('periodic_contract', opt='periodic', kind='contract', T=4),
    _k('periodic_contract_spread_dur', opt='periodic', kind='contract', T=8, ec=True, duration='4h'),
    _k('periodic_storage', opt='periodic', kind='storage', T=4, eff=0.75),
    _k('periodic_transport', opt='periodic', kind='transport', T=4, eff=0.5),
    _k('periodic_transport_costs', opt='periodic', kind='transport', T=4, eff=0.5, costs=True),
    _k('periodic_plant', opt='periodic', kind='plant', T=4),
    _k('periodic_take', opt='periodic', kind='take', T=4),
    _k('coarse_take_contract', opt='coarse', kind='take', T=4),
    _k('coarse_take_contract_last_interval_shorter', opt='coarse', kind='take', T=5),
    _k('coarse_take_period_ends_inside_an_interval', opt='coarse', kind='take', T=4, take=(0, 3)),
    _k('periodic_contract_window', opt='periodic', kind='contract', T=6, win=(1, 5)),
    _k('periodic_multicommodity', opt='periodic', kind='multicommodity', T=4),
    _k('coarse_contract_dst_days_q', opt='coarse', kind='contract', T=4, coarse='2d', freq=('d', '2021-03-27', '2021-03-31', 'CET')),
]
THOROUGH = QUICK + [
    _k('coarse_contract_3h_T6', opt='coarse', kind='contract', T=6, coarse='3h', ec=True),
    _k('coarse_transport_T6_win', opt='coarse', kind='transport', T=6, eff=0.5, win=(1, 6)),
    _k('coarse_storage_onevar', opt='coarse', kind='storage', T=4, eff=None),
    _k('coarse_storage_T6_3h', opt='coarse', kind='storage', T=6, eff=0.75, coarse='3h'),
    _k('coarse_contract_straddles_end', opt='coarse', kind='contract', T=5, win=(2, 9)),
    _k('coarse_contract_halfhour', opt='coarse', kind='contract', T=4, freq='30min', coarse='h'),
    _k('periodic_contract_caps_ts', opt='periodic', kind='caps_ts', T=4),
    _k('periodic_storage_dur_T8', opt='periodic', kind='storage', T=8, eff=0.75, duration='4h'),
    _k('coarse_contract_dst_days', opt='coarse', kind='contract', T=4, coarse='2d', freq=('d', '2021-03-27', '2021-03-31', 'CET')),
    _k('coarse_transport_dst_days', opt='coarse', kind='transport', T=4, coarse='2d', eff=0.5, freq=('d', '2021-10-30', '2021-11-03', 'CET')),
    # deeper: longer horizons, windows together with coarse take periods, three periods
    _k('coarse_take_contract_T6_3h', opt='coarse', kind='take', T=6, coarse='3h'),
    _k('coarse_take_window_T6', opt='coarse', kind='take', T=6, win=(2, 6)),
    _k('coarse_storage_T8', opt='coarse', kind='storage', T=8, eff=0.75),
    _k('periodic_contract_window_T8', opt='periodic', kind='contract', T=8, win=(2, 7)),
    _k('periodic_transport_T6_costs', opt='periodic', kind='transport', T=6, eff=0.5, costs=True),
    _k('periodic_take_T6', opt='periodic', kind='take', T=6),
]
BOUNDS = dict(quick='%s; hourly (30-min) grids, T<=8, coarse 2h/3h, period 2h, duration 4h; wacc = 0' % [c[0] for c in QUICK],
              thorough='%s' % [c[0] for c in THOROUGH])
OUTSIDE = [
           'holding cost (cost_store) of a coarse storage (level is only tracked at coarse interval ends)',
           'anchored frequencies (W, MS) for coarse grids', 'irregular fine steps (C12)']
ASSUMPTIONS = ['with a discount rate, a coarse interval is discounted with the factor of its first minor step (what contract, transport and storage all do; proven for the three classes)',
               'prices of a coarse interval are the plain mean over its minor steps ("as documented"; equals the dt-weighted mean on uniform grids) -- the reference prices the coarse asset that way',
               'bounds of merged periodic variables are the group mean (pinned by test_periodic_contract_max_capa)']


LONG = [
    # beyond toy sizes: two-digit numbers of durations and of positions within the period (12 durations of two 11-hour periods). Decided
    # structurally: which fine variables one merged variable stands for (C07's periodic mapping obligation against the non-periodic set-up)
    ('periodic_long_12_durations_of_2x11h', dict(opt='c07periodic', kind='contract', T=264, period='11h', duration='22h')),
    ('periodic_long_transport_11_durations_of_2x10h', dict(opt='c07periodic', kind='transport', T=220, period='10h', duration='20h', eff=0.5)),
]


def cases(tier, seed):
    lst = THOROUGH if tier == 'thorough' else QUICK
    return [(cid, dict(kw)) for cid, kw in lst] + [(cid, dict(kw)) for cid, kw in LONG]


# ------------------------------------------------------------------------------------------------ builders
def mk_asset(D, kind, T, tg, nA, nB, opt_kw, ec=False, eff=None, win=None, costs=False, take=None, cost_ts=False):
    eao = lift.import_eao()
    if kind == 'contract':
        return shapes.mk_market(D, 'as', nA, T, 'r', ec=ec, win=win, tg=tg, **opt_kw)
    if kind == 'transport':
        return shapes.mk_transport(D, 'as', nA, nB, eff=eff, costs=costs, win=win, tg=tg, cost_ts=('r' if cost_ts else None), **opt_kw)     # cost_ts: costs per flow as a time series
    if kind == 'ext_transport':
        return shapes.mk_transport(D, 'as', nA, nB, eff=eff, costs=costs, win=win, tg=tg, cls=eao.assets.ExtendedTransport, **opt_kw)
    if kind == 'storage':
        return shapes.mk_storage(D, 'as', nA, eff=eff, costs=('inout' if eff is not None else False), inflow=True, win=win, tg=tg, **opt_kw)
    if kind == 'multicommodity':
        s, e = shapes.window(tg, win) if win is not None else (None, None)
        return eao.assets.MultiCommodityContract(name='as', nodes=[nA, nB], price='r', min_cap=D('as_min', hi=0), max_cap=D('as_max', lo=0),
                                                 extra_costs=D('as_ec', lo=0) if ec else 0., factors_commodities=[1.0, 0.5], start=s, end=e, **opt_kw)
    if kind == 'take':
        return eao.assets.Contract(name='as', nodes=nA, price='r', min_cap=D('as_min', hi=0), max_cap=D('as_max', lo=0),
                                   max_take=shapes.mk_take(tg, take[0] if take else 0, take[1] if take else T, D('as_maxtake', lo=0)), **opt_kw)
    if kind == 'caps_ts':
        return eao.assets.SimpleContract(name='as', nodes=nA, price='r', min_cap='capmin', max_cap='capmax', **opt_kw)
    if kind == 'plant':
        return shapes.mk_plant(D, 'as', [nA], T, price='r', fuel=False, mr=2, tg=tg, **opt_kw)
    raise KeyError(kind)


def build_pair(D, opt, kind, T, freq='h', coarse='2h', period='2h', duration=None, wacc=False, other_coarse=False, **kw):
    eao = lift.import_eao()
    tg = shapes.grid(T, freq)
    nA, nB = shapes.nodes('A', 'B')
    prices = shapes.prices_for(D, ['p', 'q', 'r'], T)
    if kind == 'caps_ts':
        prices['capmin'] = D.arr('capmin', T, hi=0)
        prices['capmax'] = D.arr('capmax', T, lo=0)
    opt_kw = dict(freq=coarse) if opt == 'coarse' else dict(periodicity=period, periodicity_duration=duration)

    def pf(okw):
        a = mk_asset(D, kind, T, tg, nA, nB, okw, **kw)
        assets = [shapes.mk_market(D, 'mA', nA, T, 'p'), a]
        if other_coarse:
            # a second asset with the SAME coarser frequency living on the whole horizon, set up before the asset under test (whose window ends
            # inside a coarse interval): both portfolios contain it as it is -- whatever it leaves on the shared grid must not reach 'as'
            assets.insert(1, shapes.mk_market(D, 'oc', nA, T, 'q', ec=True, freq=coarse))
        if kind in ('transport', 'ext_transport', 'multicommodity'):
            assets.append(shapes.mk_market(D, 'mB', nB, T, 'q'))
        return eao.portfolio.Portfolio(assets)
    if wacc:
        # the option asset is discounted (symbolic rate); its fine twin is NOT: the reference applies the convention explicitly
        opt_kw = dict(opt_kw, wacc=D('wacc', lo=0))
    return pf(opt_kw), pf({}), tg, prices


def structure(tg, a_opt, opt, coarse, period, duration):
    """independent recomputation of coarse intervals / periodic groups: list of lists of grid steps"""
    tp = list(tg.timepoints)
    s, e = refmap._ts(a_opt.start, tg.tz), refmap._ts(a_opt.end, tg.tz)
    s = s if s is not None else tg.start
    e = e if e is not None else tg.end
    active = [t for t in range(tg.T) if s <= tp[t] < e]
    if opt == 'coarse':
        # calendar-aware coarse raster anchored at the window start (a 2-day interval over a DST switch has 47 h)
        pts = list(pd.date_range(start=s, end=e, freq=coarse, tz=tg.tz))
        if not pts or pts[-1] < e:
            pts.append(e)
        groups = {}
        for t in active:
            k = max(i for i, p_ in enumerate(pts) if p_ <= tp[t])
            groups.setdefault(k, []).append(t)
        return [groups[k] for k in sorted(groups)]
    per = pd.Timedelta(period)
    dur = pd.Timedelta(duration) if duration else None
    groups = {}
    first_of_period = {}
    for t in range(tg.T):
        p_ = int((tp[t] - tp[0]) // per)
        first_of_period.setdefault(p_, t)
        d_ = int((tp[t] - tp[0]) // dur) if dur else 0
        sub = t - first_of_period[p_]
        if t in active:
            groups.setdefault((d_, sub), []).append(t)
    return [groups[k] for k in sorted(groups)]


def coarse_groups(Pf, groups):
    """for every variable of the coarse asset in the fine problem: the indices of the same variable over its coarse interval"""
    kf = embed_lp.keymap(Pf)
    fkeys = Pf.var_keys()
    group_of = {t: gi for gi, g in enumerate(groups) for t in g}
    out = {}
    for i in range(Pf.n):
        asset, vn, t, node = fkeys[i]
        if asset == 'as':
            g = groups[group_of[t]]
            if len(g) > 1:
                out[i] = [kf[(asset, vn, s_, node)] for s_ in g]
    return out


def maps(Po, Pf, groups, dt, opt):
    """explicit linear maps between the option problem and the fine problem, from the meaning of the variables"""
    from fractions import Fraction
    ko, kf = embed_lp.keymap(Po), embed_lp.keymap(Pf)
    fkeys, okeys = Pf.var_keys(), Po.var_keys()
    group_of = {t: gi for gi, g in enumerate(groups) for t in g}
    M1 = embed_lp.LinMap(Pf.n)       # option -> fine
    M2 = embed_lp.LinMap(Po.n)       # fine -> option
    eq_rows, bad_key, mean_groups = [], None, {}
    for i in range(Pf.n):
        asset, vn, t, node = fkeys[i]
        if asset != 'as':
            M1.set(i, ko[(asset, vn, t, node)])
            continue
        g = groups[group_of[t]]
        rep = (asset, vn, g[0], node)            # the option problem's variable carries the group's first step
        if rep not in ko:
            bad_key = rep
            continue
        if opt == 'coarse':
            M1.set(i, ko[rep], Fraction(dt[t]) / sum((Fraction(dt[s_]) for s_ in g), Fraction(0)))
        else:
            M1.set(i, ko[rep])
            if len(g) > 1:
                mean_groups[i] = [kf[(asset, vn, s_, node)] for s_ in g]
        if t != g[0]:
            j = kf[(asset, vn, g[0], node)]
            eq_rows.append({i: Fraction(dt[g[0]]), j: -Fraction(dt[t])} if opt == 'coarse' else {i: Fraction(1), j: Fraction(-1)})
    for i in range(Po.n):
        if i not in okeys:
            continue
        asset, vn, t, node = okeys[i]
        if asset != 'as':
            M2.set(i, kf[(asset, vn, t, node)])
            continue
        g = groups[group_of[t]]
        if opt == 'coarse':
            for s_ in g:
                M2.set(i, kf[(asset, vn, s_, node)])
        else:
            M2.set(i, kf[(asset, vn, g[0], node)])
    return M1, M2, eq_rows, bad_key, mean_groups


# ------------------------------------------------------------------------------------------------ run
def _c07kw(kind, T, kw):
    return dict(shape='-', kw=dict(kw, kind=kind, T=T), split=None, level='periodic')


def run_case(case_id, tier, seed, opt, kind, T, **kw):
    if opt == 'c07periodic':
        from . import c07
        res = c07.run_case(case_id, tier, seed, **_c07kw(kind, T, kw))
        res['prop'] = PROP
        return res
    rec = lpsem.Rec(PROP, case_id)
    eao = lift.import_eao()
    coarse = kw.get('coarse', '2h'); period = kw.get('period', '2h'); duration = kw.get('duration')
    kf_plant = kind == 'plant'

    def build(D):
        po, pfine, tg, prices = build_pair(D, opt, kind, T, **kw)
        opo = po.setup_optim_problem(prices, tg)
        xo = common.sym_x(len(opo.c), 'x')
        outo = eao.io.extract_output(po, opo, eao.optimization.Results(value=Sym.var('value'), x=xo, duals=None))
        opf = pfine.setup_optim_problem(prices, tg)
        return po, pfine, tg, prices, opo, xo, outo, opf
    res = lift.explore_build(build, level='A')
    rec.paths = len(res)
    validated = False
    for pi, (path, D) in enumerate(res):
        P = 'p%d' % pi
        if path.exc is not None:
            if common.is_rejection(path.exc):
                rec.rejected_paths += 1
                continue
            if kf_plant and known.is_open('KF-C13-periodic-plant'):
                rec.known_hits.append(('KF-C13-periodic-plant', P + '/crash', '%s: %s' % (type(path.exc).__name__, str(path.exc)[:80])))
                rec.obligations.append(dict(name=P + '/crash', verdict='sat', secs=0, form='crash'))
                continue
            common.crash_candidate(rec, P + '/crash', path, D, info=dict(kind='crash'))
            continue
        po, pfine, tg, prices, opo, xo, outo, opf = path.result
        Po, Pf = lpsem.LP(opo), lpsem.LP(opf)
        base = list(D.pre) + path.pc + sym.atom_constraints()
        x = [zl(v) for v in xo]
        a_opt = [a for a in po.assets if a.name == 'as'][0]
        groups = structure(tg, a_opt, opt, coarse, period, duration)
        dt = [sym.snap_fraction(float(v)) for v in tg.dt]
        group_of = {}
        for gi, g in enumerate(groups):
            for t in g:
                group_of[t] = gi
        M1, M2, eq_rows, bad_key, mean_groups = maps(Po, Pf, groups, dt, opt)
        if bad_key is not None:
            rec.obligations.append(dict(name=P + '/keys', verdict='sat', secs=0, form='struct'))
            rec.candidates.append(dict(name=P + '/keys', env={}, info=dict(kind='keys', missing=str(bad_key)), form='struct'))
            continue
        # reference = fine problem; periodic: bounds of merged variables are the group mean
        if opt == 'periodic':
            newl, newu = list(Pf.l), list(Pf.u)
            for i, idx in mean_groups.items():
                newl[i] = z3.Sum([Pf.l[j] for j in idx]) / len(idx)
                newu[i] = z3.Sum([Pf.u[j] for j in idx]) / len(idx)
            Pf.l, Pf.u = newl, newu
        if opt == 'coarse':
            # documented pricing of a coarse interval: the plain mean of the minor steps' prices (on uniform grids this is what the
            # constant rate implies anyway; on irregular grids it is the stated convention)
            newc = list(Pf.c)
            for i, idx in coarse_groups(Pf, groups).items():
                newc[i] = z3.Sum([Pf.c[j] for j in idx]) / len(idx)
            if kw.get('wacc'):
                # convention shared by all asset classes: a coarse interval is discounted with the factor of its FIRST minor step
                from .. import refmodel, refmap as _rm
                el = _rm.grid_facts(tg)[3]
                fkeys = Pf.var_keys()
                for i in range(Pf.n):
                    if fkeys[i][0] == 'as':
                        g0 = groups[group_of[fkeys[i][2]]][0]
                        newc[i] = newc[i] * refmodel.discount(zl(a_opt.wacc), el[g0])
            Pf.c = newc
        embed_lp.embed(rec, P + '/option2fine', base, Po, x, Pf, M1.apply_sym(x), rel='==', info=dict(kind='emb', dir='option2fine'))
        # ---------- fine + equalities -> option
        y = Pf.mk_x('y')
        eqs = [z3.Sum([y[j] * sym.ratval(co) for j, co in r.items()]) == 0 for r in eq_rows]
        embed_lp.embed(rec, P + '/fine2option', base, Pf, y, Po, M2.apply_sym(y), rel='==', info=dict(kind='emb', dir='fine2option'), extra_assume=eqs)
        # ---------- reported rate constant / identical across periods
        assume = base + Po.feas(x)
        disp = outo['dispatch']
        single = len(po.nodes) == 1
        for n in a_opt.nodes:
            col = 'as' if single else 'as (%s)' % n.name
            for g in groups:
                for t in g[1:]:
                    a_, b_ = zl(disp[col].values[t]), zl(disp[col].values[g[0]])
                    if opt == 'coarse':
                        goal = a_ * ratval(dt[g[0]]) == b_ * ratval(dt[t])
                    else:
                        goal = a_ == b_
                    rec.prove(P + '/reported/%s/%d' % (col, t), assume, goal, form='Q1', info=dict(kind='reported', col=col, t=t, t0=g[0], opt=opt))
        if not validated:
            from .. import obs
            names = list(D.names) + ['x%d' % i for i in range(Po.n)]
            env = common.generic_point(assume, names, seed)
            if env is not None:
                for nm in names:
                    env.setdefault(nm, 0.0)
                env.setdefault('value', 0.0)
                rec.validations.append(dict(env=env, lifted=obs.to_jsonable(dict(option=obs.problem_obs(opo), fine=obs.problem_obs(opf),
                                                                                  out=obs.output_obs(outo)), env)))
                validated = True
    return rec.result()


# ------------------------------------------------------------------------------------------------ pristine
def observe(case, kwargs, env, rq):
    from .. import obs
    if kwargs.get('opt') == 'c07periodic':
        from . import c07
        kw_ = dict(kwargs); kw_.pop('opt')
        return c07.observe(case, _c07kw(kw_.pop('kind'), kw_.pop('T'), kw_), env, rq)
    eao = lift.import_eao()
    D = lift.Domain(theta=env)
    kw = dict(kwargs)
    opt, kind, T = kw.pop('opt'), kw.pop('kind'), kw.pop('T')
    po, pfine, tg, prices = build_pair(D, opt, kind, T, **kw)
    opo = po.setup_optim_problem(prices, tg)
    xo = common.concrete_x(env, len(opo.c))
    outo = eao.io.extract_output(po, opo, eao.optimization.Results(value=float(env.get('value', 0.0)), x=xo, duals=None))
    opf = pfine.setup_optim_problem(prices, tg)
    o = dict(option=obs.problem_obs(opo), fine=obs.problem_obs(opf), out=obs.output_obs(outo))
    if rq.get('kind') == 'replay':
        # real optimum of the option problem vs real optimum of the fine problem with the equalities appended as rows
        import scipy.sparse as sp
        a_opt = [a for a in po.assets if a.name == 'as'][0]
        groups = structure(tg, a_opt, opt, kw.get('coarse', '2h'), kw.get('period', '2h'), kw.get('duration'))
        Pf = lpsem.LP(opf)
        kf = embed_lp.keymap(Pf)
        fkeys = Pf.var_keys()
        rows = []
        dt = [float(v) for v in tg.dt]
        group_of = {t: gi for gi, g in enumerate(groups) for t in g}
        l = np.asarray(opf.l, dtype=float).copy(); u = np.asarray(opf.u, dtype=float).copy()
        for i in range(Pf.n):
            asset, vn, t, node = fkeys[i]
            if asset != 'as':
                continue
            g = groups[group_of[t]]
            if opt == 'periodic':
                idx = [kf[(asset, vn, s_, node)] for s_ in g]
                l[i] = float(np.mean(np.asarray(opf.l, dtype=float)[idx])); u[i] = float(np.mean(np.asarray(opf.u, dtype=float)[idx]))
            if t == g[0]:
                continue
            j = kf[(asset, vn, g[0], node)]
            r = np.zeros(Pf.n)
            if opt == 'coarse':
                r[i] = dt[g[0]]; r[j] = -dt[t]
            else:
                r[i] = 1.0; r[j] = -1.0
            rows.append(r)
        opf.l = l; opf.u = u
        if opt == 'coarse':
            c0 = np.asarray(opf.c, dtype=float).copy()
            c1 = c0.copy()
            for i, idx in coarse_groups(Pf, groups).items():
                c1[i] = float(np.mean(c0[idx]))
            if kw.get('wacc'):
                from .. import refmap as _rm
                el = _rm.grid_facts(tg)[3]
                w_ = float(a_opt.wacc)
                for i in range(Pf.n):
                    if fkeys[i][0] == 'as':
                        g0 = groups[group_of[fkeys[i][2]]][0]
                        c1[i] = c1[i] * (1.0 + w_) ** (-float(el[g0]) / 365.0)
            opf.c = c1
        if rows:
            opf.A = sp.vstack((opf.A, sp.csr_matrix(np.vstack(rows))))
            opf.b = np.hstack((opf.b, np.zeros(len(rows))))
            opf.cType = opf.cType + 'S' * len(rows)
        vo, so = embed_lp.optimum(opo)
        vf_, sf = embed_lp.optimum(opf)
        o.update(v_option=vo, s_option=so, v_fine=vf_, s_fine=sf, dt=dt)
        info = rq.get('info', {})
        if info.get('kind') == 'emb':
            Po = lpsem.LP(opo)
            dts = [sym.snap_fraction(float(v)) for v in tg.dt]
            M1, M2, eq_rows, bad_key, mean_groups = maps(Po, Pf, groups, dts, opt)
            fine_obs = obs.to_jsonable(obs.problem_obs(opf))        # with mean bounds and WITHOUT counting the appended equality rows twice
            opt_obs = obs.to_jsonable(o['option'])
            if info.get('dir') == 'option2fine':
                x0 = [float(env.get('x%d' % i, 0.0)) for i in range(Po.n)]
                o['nums'] = embed_lp.replay_numbers(opt_obs, fine_obs, M1, x0)
            else:
                y0 = [float(env.get('y%d' % i, 0.0)) for i in range(Pf.n)]
                o['nums'] = embed_lp.replay_numbers(fine_obs, opt_obs, M2, y0)
    return o


def judge(case, kwargs, cand, ans):
    info = cand.get('info', {})
    if kwargs.get('opt') == 'c07periodic':
        from . import c07
        kw_ = dict(kwargs); kw_.pop('opt')
        return c07.judge(case, _c07kw(kw_.pop('kind'), kw_.pop('T'), kw_), cand, ans)
    if cand.get('form') == 'crash' or 'crash' in info:
        return (True, 'raises on an in-domain input: ' + ans['error'][:200]) if 'error' in ans else (False, 'no exception')
    if 'error' in ans:
        return None, ans['error']
    o = ans['obs']
    if info.get('kind') == 'keys':
        return True, 'option problem has no variable for ' + info['missing']
    bad, text = embed_lp.judge_values(o.get('v_option'), o.get('s_option'), o.get('v_fine'), o.get('s_fine'), '==',
                                      what=('with the option', 'fine problem plus equalities'))
    if bad:
        return True, text
    if info.get('kind') == 'emb' and 'nums' in o:
        what = ('option', 'fine+equalities') if info.get('dir') == 'option2fine' else ('fine+equalities', 'option')
        return embed_lp.judge_numbers(o['nums'], info.get('label'), '==', what=what)
    if info.get('kind') == 'reported':
        p = o['option']
        x = [cand['env'].get('x%d' % i, 0.0) for i in range(len(p['c']))]
        if scen.feasibility_residual(p, x) > 1e-6:
            return False, 'witness infeasible for the unshimmed problem'
        col = o['out']['dispatch'][info['col']]
        a_, b_ = col[info['t']], col[info['t0']]
        if info['opt'] == 'coarse':
            a_, b_ = a_ / o['dt'][info['t']], b_ / o['dt'][info['t0']]
        return abs(a_ - b_) > 1e-6 * max(1, abs(a_)), 'reported rate %.6g at step %d vs %.6g at step %d' % (a_, info['t'], b_, info['t0'])
    return False, text
