"""C18 Reported nodal prices are marginal values of the optimum.

(a) Placement and sign (lifted, symbolic duals y for the nodal rows, one per 'N' row as a solver returns them): the real
    extract_output reports -y_r at (time of step t, 'nodal price: ' + n) for exactly the row r whose coefficients are the
    dispatch rows of (n, t) -- (n, t) is identified by the harness from the row's support, not from map_nodal_restr; every
    (node, step) with dispatch gets a price; also for split problems (concatenated duals).
(b) Marginal-value meaning (needs the real solver, hence concrete seeded portfolios/prices; decided in the pristine interpreter):
    with the reported price pi and the optimal value V as numbers, z3 decides
         exists d, x' :  x' feasible with the nodal row of (n, t) changed to  sum dispatch + d = 0   /\\   -c.x' > V + pi*d + tol
    unsat for EVERY d of either sign and any size and every feasible x', for each (node, step) and every installed LP solver.
    A test would have to re-optimise at sampled d; the solver covers all of them.  This also pins cvxpy's dual sign convention.
"""
import random
import time
from fractions import Fraction

import numpy as np
import pandas as pd
import z3

from .. import scen, common, sym, lpsem, lift, shapes, obs
from ..sym import Sym, lift as zl
from ..shims import to_dense

PROP = 'C18'
PLACEMENT = [
    ('two_node', dict(T=3), None),
    ('two_node_discounted_daily', dict(T=3, freq='d', wacc=True), None),
    ('two_node_names_not_in_alphabetical_order', dict(T=3, node_names=('power', 'gas')), None),
    ('two_node_names_reversed_split', dict(T=4, freq='12h', node_names=('N2', 'N1')), 'd'),
    ('two_node_name_contained_in_the_other', dict(T=3, node_names=('node_1', 'node_10')), None),
    ('two_node_name_contains_the_other', dict(T=3, node_names=('hub_north', 'hub')), None),
    ('two_node_window_gap', dict(T=4, win_t=(1, 3)), None),
    ('windows_gap_two_nodes', dict(T=5, wins=((0, 2), (1, 2), (3, 5), (4, 5)), two_nodes=True), None),
    ('multicommodity', dict(T=3), None),
    ('late_second_node', dict(T=4), None),
    ('structured', dict(T=2), None),
    ('split_two_node', dict(T=4, freq='12h'), 'd'),
    ('split_unequal_intervals', dict(T=5, freq='6h'), 'd'),
    ('split_first_interval_without_assets', dict(T=6, wins=((2, 6), (2, 6), (3, 6)), two_nodes=False), '2h'),
    ('split_middle_interval_without_assets', dict(T=6, wins=((0, 2), (0, 2), (4, 6), (5, 6)), two_nodes=False), '2h'),
    ('split_first_asset_starts_inside_interval', dict(T=4, wins=((1, 4), (0, 4), (0, 3)), two_nodes=True), '2h'),
    ('split_first_asset_late_second_interval', dict(T=6, wins=((4, 6), (0, 6)), two_nodes=True), '3h'),
]
SHAPE_OF = dict(split_first_interval_without_assets='windows', split_middle_interval_without_assets='windows', two_node_name_contained_in_the_other='two_node', two_node_name_contains_the_other='two_node', two_node_names_not_in_alphabetical_order='two_node', two_node_names_reversed_split='two_node', two_node_discounted_daily='two_node', split_first_asset_starts_inside_interval='windows', split_first_asset_late_second_interval='windows', two_node_window_gap='two_node', windows_gap_two_nodes='windows', split_two_node='two_node', split_unequal_intervals='two_node',
                late_second_node='late_node')
INSTANCES = ['two_node', 'contract_storage', 'multicommodity', 'late_node', 'uncoupled', 'coarse',
             'two_node@big', 'scaled@big', 'contract_storage@small', 'orderbook', 'two_node_discounted', 'ext_transport']     # @big / @small: prices of the order 1e5 / 1e-4 (other currencies / units)
SOLVERS = [None, 'CLARABEL', 'SCIPY']
BOUNDS = dict(quick='placement: %s; supergradient certificate: 1 seeded instance of each of %s x solvers %s x all (node, step)' % ([p[0] for p in PLACEMENT], INSTANCES, SOLVERS),
              thorough='6 seeded instances per shape')
OUTSIDE = ['"for all portfolios and prices": the portfolio/prices of (b) are a finite seeded instance set (a real solver must produce the duals); the solver quantifies over the perturbation and the re-optimised point',
           'MIP portfolios (no duals)']
ASSUMPTIONS = ['an injection d at (node, step) enters the nodal row as  sum dispatch + d = 0', 'tolerance 1e-6 relative on value and price']


def pf_late_node(D, T=4):
    """second node whose assets (transport, demand, market) start later than the grid: (node, step) pairs without dispatch precede others"""
    eao = lift.import_eao()
    tg = shapes.grid(T)
    nA, nB = shapes.nodes('A', 'B')
    mA = shapes.mk_market(D, 'mA', nA, T, 'p', ec=True)
    tr = shapes.mk_transport(D, 'tr', nA, nB, eff=0.5, win=(2, T), tg=tg)
    mB = shapes.mk_market(D, 'mB', nB, T, 'q', win=(2, T), tg=tg)
    st = shapes.mk_storage(D, 'sto', nA, eff=0.75)
    pf = eao.portfolio.Portfolio([mA, st, tr, mB])
    return shapes.Shape(pf, tg, shapes.prices_for(D, ['p', 'q'], T))


shapes.PORTFOLIOS['late_node'] = pf_late_node


def cases(tier, seed):
    out = []
    for cid, kw, split in PLACEMENT:
        out.append(('placement_' + cid, dict(kind='placement', shape=SHAPE_OF.get(cid, cid), kw=kw, split=split)))
    # an injection is a right-hand side of the nodal balance: the nodal rows handed to the solver carry the problem's right-hand side and
    # their duals are filed under 'N' (C03's recorder machinery, fully symbolic problems with nodal rows)
    out.append(('nodal_right_hand_side_and_duals_reach_the_solver', dict(kind='c03', sub=dict(kind='stub', m=2, n=3, mapping='plain', ctypes=['UN', 'NN', 'SN', 'LN']))))
    reps = 6 if tier == 'thorough' else 1
    for shp in INSTANCES:
        for k in range(reps):
            out.append(('marginal_%s_%d' % (shp, k), dict(kind='marginal', shape=shp, k=k)))
    return out


# ------------------------------------------------------------------------------------------------ (a) placement
def n_rows(op):
    return (op.cType or '').count('N')


def run_case(case_id, tier, seed, kind, **kw):
    if kind == 'c03':
        from . import c03
        sub = dict(kw['sub'])
        res = c03.run_case(case_id, tier, seed, **sub)
        res['prop'] = PROP
        return res
    rec = lpsem.Rec(PROP, case_id)
    if kind == 'marginal':
        rec.pchecks.append(dict(extra=dict(seed=seed, shape=kw['shape'], k=kw['k'])))
        rec.twins_ok += 1
        rec.vacuity_ok += 1
        return rec.result()
    return run_placement(rec, seed, **kw)


def placement_scenario(D, shape, kw, split, env=None):
    eao = lift.import_eao()
    sh = shapes.build_portfolio(D, shape, **kw)
    if split is None:
        op = sh.portf.setup_optim_problem(sh.prices, sh.tg)
        ops = [op]
    else:
        op = sh.portf.setup_split_optim_problem(pd.DataFrame(sh.prices), sh.tg, interval_size=split)
        ops = list(op.ops)
    n = len(op.c)
    nN = sum(n_rows(o) for o in ops)           # what the solver returns: one dual per nodal row
    if D.symbolic:
        x = common.sym_x(n); y = common.sym_x(nN, 'y'); val = Sym.var('value')
    else:
        x = common.concrete_x(env, n); y = common.concrete_x(env, nN, 'y'); val = 0.0
    res = eao.optimization.Results(value=val, x=x, duals={'N': y})
    out = eao.io.extract_output(sh.portf, op, res)
    return sh, op, ops, y, out


def expected_places(sh, op, ops):
    """for every nodal row (in solver order): the (node, original step) whose dispatch rows form it -- from the row's support"""
    gm = op.mapping
    places = []
    off = 0
    for o in ops:
        A = to_dense(o.A)
        rows = [r for r, ty in enumerate(o.cType) if ty == 'N']
        m = gm[(gm.index >= off) & (gm.index < off + len(o.c))] if len(ops) > 1 else gm
        by_pair = {}
        for i, r in m.iterrows():
            if r['type'] == 'd' and isinstance(r['node'], str):
                by_pair.setdefault((r['node'], int(r['time_step'])), set()).add(int(i) - (off if len(ops) > 1 else 0))
        for r in rows:
            supp = {j for j in range(A.shape[1]) if isinstance(A[r, j], Sym) or A[r, j] != 0}
            match = [k for k, v in by_pair.items() if v == supp]
            places.append(match[0] if len(match) == 1 else None)
        off += len(o.c)
    return places


def run_placement(rec, seed, shape, kw, split):
    def build(D):
        return placement_scenario(D, shape, kw, split)
    res = lift.explore_build(build, level='A')
    rec.paths = len(res)
    validated = False
    for pi, (path, D) in enumerate(res):
        P = 'p%d' % pi
        if path.exc is not None:
            if common.is_rejection(path.exc):
                rec.rejected_paths += 1
                continue
            common.crash_candidate(rec, P + '/crash', path, D, info=dict(kind='crash'))
            continue
        sh, op, ops, y, out = path.result
        base = list(D.pre) + path.pc + sym.atom_constraints()
        if rec.vacuity(P, base) is None:
            continue
        places = expected_places(sh, op, ops)
        prices = out['prices']
        rec.twin(P + '/placement', base, z3.BoolVal(False))
        seen = set()
        for r, pl in enumerate(places):
            nm = P + '/price_of_row/%d' % r
            if pl is None:
                rec.obligations.append(dict(name=nm, verdict='sat', secs=0, form='Q2'))
                rec.candidates.append(dict(name=nm, env={}, info=dict(kind='row_support', r=r), form='struct'))
                continue
            node, t = pl
            seen.add(pl)
            col = 'nodal price: ' + node
            if col not in prices.columns:
                rec.obligations.append(dict(name=nm, verdict='sat', secs=0, form='Q2'))
                rec.candidates.append(dict(name=nm, env={}, info=dict(kind='column', col=col), form='struct'))
                continue
            v = prices[col].values[t]
            if v is None or (isinstance(v, float) and v != v):
                rec.obligations.append(dict(name=nm, verdict='sat', secs=0, form='Q2'))
                rec.candidates.append(dict(name=nm, env=common.generic_point(base, D.names, seed) or {}, info=dict(kind='missing', node=node, t=t, r=r), form='struct'))
                continue
            rec.prove(nm, base, zl(v) == -zl(y[r]), form='Q2', info=dict(kind='placement', node=node, t=t, r=r))
        # every (node, step) with dispatch has exactly one row
        gm = op.mapping
        want = {(r['node'], int(r['time_step'])) for _, r in gm.iterrows() if r['type'] == 'd' and isinstance(r['node'], str)}
        ok = want == seen and len(places) == len(want)
        nm = P + '/one_price_per_node_and_step'
        rec.obligations.append(dict(name=nm, verdict='unsat' if ok else 'sat', secs=0, form='Q2'))
        rec.distinct.add(nm)
        if not ok:
            rec.candidates.append(dict(name=nm, env=common.generic_point(base, D.names, seed) or {}, info=dict(kind='coverage', rows=len(places), pairs=len(want)), form='struct'))
        if not validated:
            names = list(D.names) + ['x%d' % i for i in range(len(op.c))] + ['y%d' % i for i in range(len(y))]
            env = common.generic_point(base, names, seed)
            if env is not None:
                for n_ in names:
                    env.setdefault(n_, 0.0)
                rec.validations.append(dict(env=env, lifted=obs.to_jsonable(dict(prices=obs.output_obs(out)['prices']), env)))
                validated = True
    return rec.result()


# ------------------------------------------------------------------------------------------------ (b) marginal values
def instance_env(shape, k, seed):
    """seeded concrete parameters / prices for a catalogue LP shape"""
    rnd = random.Random('%s/%d/%d' % (shape, k, seed))

    class Src(dict):
        def get(self, name, default=0.0):
            if name not in self:
                if name.startswith('wacc'):
                    v = rnd.choice([0.5, 1.0, 3.0])      # large rates so that discounting shows on short horizons
                elif name.startswith('ob_price'):
                    v = rnd.choice([1.0, 2.5, 4.0])
                elif name.startswith('scale'):
                    v = 0.0 if name.endswith('_min') else rnd.choice([1.0, 2.0, 3.0])
                elif name.startswith(('tr', 'itr', 'xt')) and name.endswith('_min'):
                    v = rnd.choice([0.0, 0.5])
                elif name.endswith('_min'):
                    v = -rnd.choice([1, 2, 3]) * 1.0
                elif name.endswith('_eff') or name.startswith('mc_f'):
                    v = default
                elif name.endswith(('_cin', '_cout', '_cstore', '_ec', '_cc')):
                    v = rnd.choice([0.0, 0.1, 0.25])
                elif name.endswith('_inflow'):
                    v = rnd.choice([0.0, 0.25])
                elif name.endswith(('_start', '_end')):
                    v = rnd.choice([0.0, 1.0])
                elif name.endswith('_size'):
                    v = rnd.choice([2.0, 4.0])
                elif name.endswith(('take',)):
                    v = rnd.choice([1.0, 2.0]) * (-1 if 'min' in name else 1)
                elif name[0] in 'pqrk' and name[1:].isdigit():
                    v = rnd.choice([1.0, 2.0, 3.5, 5.0, 0.5, 7.0]) * (20000.0 if shape.endswith('@big') else (1e-4 if shape.endswith('@small') else 1.0))
                else:
                    v = rnd.choice([1.0, 1.5, 2.0, 3.0])
                self[name] = v
            return self[name]
    return Src()


SHAPE_KW = dict(two_node=dict(T=3), contract_storage=dict(T=4), multicommodity=dict(T=3, take=(0, 3)), late_node=dict(T=4),
                uncoupled=dict(T=3), coarse=dict(T=4, kind='contract'), scaled=dict(T=3, base='storage'), orderbook=dict(T=3, wacc=True, freq='d'),
                two_node_discounted=dict(T=3, freq='d', wacc=True), ext_transport=dict(T=3))


def observe(case, kwargs, env, rq):
    kw = dict(kwargs)
    kind = kw.pop('kind')
    if kind == 'c03':
        from . import c03
        return c03.observe(case, dict(kw['sub']), env, rq)
    if kind == 'placement':
        D = lift.Domain(theta=env)
        sh, op, ops, y, out = placement_scenario(D, kw['shape'], kw['kw'], kw['split'], env=env)
        o = dict(prices=obs.output_obs(out)['prices'])
        if rq.get('kind') == 'replay':
            o['places'] = expected_places(sh, op, ops)
            o['y'] = list(y)
            o['pairs'] = sorted({(r['node'], int(r['time_step'])) for _, r in op.mapping.iterrows() if r['type'] == 'd' and isinstance(r['node'], str)})
        return o
    return marginal_check(kw['shape'], kw['k'], rq.get('extra', {}).get('seed', 0))


def marginal_check(shape, k, seed):
    """runs in the pristine interpreter: real solvers + z3 certificate per (node, step)"""
    eao = lift.import_eao()
    src = instance_env(shape, k, seed)
    D = lift.Domain(theta=src)
    obligations, violations, samples = [], [], []
    t_solver = 0.0
    for sv in SOLVERS:
        sh = shapes.build_portfolio(D, {'two_node_discounted': 'two_node'}.get(shape.split('@')[0], shape.split('@')[0]), **SHAPE_KW[shape.split('@')[0]])
        op = sh.portf.setup_optim_problem(sh.prices, sh.tg)
        try:
            res = op.optimize(solver=sv) if sv else op.optimize()
        except Exception as e:  # noqa: BLE001
            continue
        tag = 'solver=%s' % (sv or 'default')
        if isinstance(res, str):
            obligations.append(dict(name='%s/solved' % tag, verdict='unknown', secs=0, form='L0', note=res))
            continue
        out = eao.io.extract_output(sh.portf, op, res)
        V = float(res.value)
        A = np.asarray(op.A.toarray(), dtype=float)
        n = len(op.c)
        fr = lambda v: z3.RealVal(str(Fraction(float(v))))
        x = [z3.Real('x%d' % i) for i in range(n)]
        d = z3.Real('d')
        common_cs = []
        for i in range(n):
            common_cs += [x[i] >= fr(op.l[i]), x[i] <= fr(op.u[i])]
        rows = []
        for r in range(A.shape[0]):
            lhs = z3.Sum([fr(A[r, j]) * x[j] for j in range(n) if A[r, j] != 0]) if np.any(A[r] != 0) else z3.RealVal(0)
            rows.append((lhs, op.cType[r], fr(op.b[r])))
        val = -z3.Sum([fr(op.c[i]) * x[i] for i in range(n) if op.c[i] != 0])
        nrow = [r for r, ty in enumerate(op.cType) if ty == 'N']
        prices = out['prices']
        pairs = sorted({(r['node'], int(r['time_step'])) for _, r in op.mapping.iterrows() if r['type'] == 'd' and isinstance(r['node'], str)})
        # row of each pair from the support
        for (node, t) in pairs:
            supp = {int(i) for i, r in op.mapping.iterrows() if r['type'] == 'd' and r['node'] == node and int(r['time_step']) == t}
            # the balance in physical units, from the dispatch factors of the mapping (not from the matrix row, which may be scaled)
            phys = {}
            for i, r in op.mapping.iterrows():
                if r['type'] == 'd' and r['node'] == node and int(r['time_step']) == t:
                    f_ = r['disp_factor'] if 'disp_factor' in op.mapping.columns and not pd.isna(r['disp_factor']) else 1.0
                    phys[int(i)] = phys.get(int(i), 0.0) + float(f_)
            rr = [r for r in nrow if {j for j in range(n) if A[r, j] != 0} == supp]
            nm = '%s/supergradient/%s/%d' % (tag, node, t)
            col = 'nodal price: ' + node
            if len(rr) != 1 or col not in prices.columns or pd.isna(prices[col].values[t]):
                obligations.append(dict(name=nm, verdict='sat', secs=0, form='L0'))
                violations.append(dict(name=nm, text='no nodal price reported for node %s step %d (%s)' % (node, t, tag), env=dict(src), info=dict(shape=shape, k=k)))
                continue
            r0 = rr[0]
            pi = float(prices[col].values[t])
            s = z3.Solver()
            s.set('timeout', 60000)
            s.add(*common_cs)
            for r, (lhs, ty, b) in enumerate(rows):
                if r == r0:
                    s.add(z3.Sum([fr(v_) * x[i_] for i_, v_ in phys.items()]) + d == 0)
                else:
                    s.add(lhs <= b if ty == 'U' else (lhs >= b if ty == 'L' else lhs == b))
            tol = 1e-6 * (1.0 + abs(V))
            absd = z3.If(d >= 0, d, -d)
            s.add(val > fr(V) + fr(pi) * d + fr(tol) + fr(1e-6 * (1.0 + abs(pi))) * absd)
            t0 = time.time()
            r_ = s.check()
            el = time.time() - t0
            t_solver += el
            obligations.append(dict(name=nm, verdict=str(r_), secs=round(el, 4), form='L0'))
            if len(samples) < 2:
                samples.append(dict(case='marginal_%s_%d' % (shape, k), obligation=nm, value=V, price=pi, verdict=str(r_)))
            if r_ == z3.sat:
                m = s.model()
                dv = m.eval(d, model_completion=True)
                dvf = float(Fraction(str(dv)))
                newv = float(Fraction(str(m.eval(val, model_completion=True))))
                violations.append(dict(name=nm, text='node %s step %d (%s): reported price %.8g, optimum %.8g; an injection of %.6g allows the value %.8g > %.8g'
                                       % (node, t, tag, pi, V, dvf, newv, V + pi * dvf), env=dict(src), info=dict(shape=shape, k=k, d=dvf)))
    return dict(obligations=obligations, violations=violations, solver_s=t_solver, samples=samples)


def judge(case, kwargs, cand, ans):
    if kwargs.get('kind') == 'c03':
        from . import c03
        return c03.judge(case, dict(kwargs['sub']), cand, ans)
    info = cand.get('info', {})
    if cand.get('form') == 'crash' or 'crash' in info:
        return (True, 'raises on an in-domain input: ' + ans['error'][:200]) if 'error' in ans else (False, 'no exception')
    if 'error' in ans:
        return None, ans['error']
    o = ans['obs']
    places = [tuple(p) if p is not None else None for p in o['places']]
    prices = o['prices'] or {}
    k = info.get('kind')
    if k in ('placement', 'missing'):
        r, node, t = info['r'], info['node'], info['t']
        col = prices.get('nodal price: ' + node)
        got = None if col is None else col[t]
        want = -o['y'][r]
        bad = got is None or abs(got - want) > 1e-9 * max(1, abs(want))
        return bad, 'nodal row %d consists of the dispatch of node %s at step %d; its dual %.6g should be reported there as %.6g, reported: %s' % (r, node, t, o['y'][r], want, got)
    if k == 'row_support':
        return places[info['r']] is None, 'nodal row %d does not consist of the dispatch rows of one (node, step)' % info['r']
    if k == 'coverage':
        pairs = {tuple(p) for p in o['pairs']}
        bad = len(places) != len(pairs) or set(places) != pairs
        return bad, '%d nodal rows for %d (node, step) pairs with dispatch' % (len(places), len(pairs))
    if k == 'column':
        return info['col'] not in prices, 'no column %s in the price table' % info['col']
    return None, 'unknown obligation'
