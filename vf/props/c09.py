"""C09 Results do not depend on asset/node names or on the order of assets.

For a portfolio (contract, one- or two-node storage, transport, second contract; or two plants inside a LinkedAsset referenced by
name) built under a naming nu (adversarial: numeric names, '1'/'11', prefixes/suffixes, out-node name longer than in-node name,
names containing '__' or '_internal_') and an asset order pi, against the baseline naming and order:
  Q3  EMB both directions with phi = the relabelling of (asset, var_name, step, node) keys: same feasible set, same value
  Q1  per-asset reported dispatch, DCF and storage columns (real extract_output on symbolic x) are equal up to relabelling
All numbers (capacities, levels, costs, prices) are symbolic; names and orders are structure (enumerated).
"""
import itertools

import numpy as np
import z3

from .. import scen, common, sym, lpsem, lift, embed_lp, shapes
from ..sym import Sym, lift as zl

PROP = 'C09'
ROLES = ['c1', 'sto', 'tr', 'c2']
NODE_ROLES = ['n0', 'n1']

NAMINGS = {
    'numeric': (dict(c1='1', sto='11', tr='2', c2='12'), dict(n0='1', n1='10')),
    'prefixes': (dict(c1='A', sto='AA', tr='A_', c2='AAA'), dict(n0='hub', n1='hub_out')),
    'suffixes': (dict(c1='x', sto='1x', tr='11x', c2='x1'), dict(n0='a', n1='bcdefg')),
    'separators': (dict(c1='a__b', sto='a', tr='b', c2='a_internal_b'), dict(n0='N (1)', n1='N')),
    'swapped': (dict(c1='c2', sto='tr', tr='sto', c2='c1'), dict(n0='n1', n1='n0')),
    'spaces': (dict(c1='a b', sto='a', tr=' a', c2='b '), dict(n0='0', n1='00')),
    'numeric_like': (dict(c1='12.5', sto='1e3', tr='007', c2='7'), dict(n0='007', n1='7')),
    'blanks_only_difference': (dict(c1='x', sto=' x', tr='x ', c2=' x '), dict(n0='hub', n1='hub ')),
    'node_is_suffix_of_the_other': (dict(c1='c1', sto='s', tr='t', c2='c2'), dict(n0='hub', n1='north_hub')),
    'node_is_prefix_of_the_other': (dict(c1='c1', sto='s', tr='t', c2='c2'), dict(n0='21', n1='2')),
}
QUICK_ORDERS = [(0, 1, 2, 3), (3, 2, 1, 0), (1, 0, 3, 2), (2, 3, 0, 1)]


def cases(tier, seed):
    out = []
    orders = list(itertools.permutations(range(4))) if tier == 'thorough' else QUICK_ORDERS
    for two in (False, True):
        for nm in NAMINGS:
            if tier != 'thorough' and two and nm in ('spaces', 'swapped'):
                continue
            out.append(('rename_%s%s' % (nm, '_2n' if two else ''), dict(kind='rename', naming=nm, order=[0, 1, 2, 3], two_node=two, T=2)))
        for o in orders:
            if list(o) == [0, 1, 2, 3]:
                continue
            if tier != 'thorough' and two and o != (3, 2, 1, 0):
                continue
            out.append(('order_%s%s' % (''.join(map(str, o)), '_2n' if two else ''), dict(kind='rename', naming=None, order=list(o), two_node=two, T=2)))
    for o in ((3, 2, 1, 0), (1, 0, 3, 2), (2, 3, 0, 1)) if tier != 'thorough' else [p_ for p_ in orders if list(p_) != [0, 1, 2, 3]][::3]:
        out.append(('order_%s_mixed_discount_rates' % ''.join(map(str, o)), dict(kind='rename', naming=None, order=list(o), two_node=False, T=2, wacc=True)))
        out.append(('order_%s_mixed_discount_rates_repeated_setup' % ''.join(map(str, o)), dict(kind='rename', naming=None, order=list(o), two_node=False, T=2, wacc=True, repeat=True)))
    out.append(('rename_numeric_mixed_discount_rates_repeated_setup', dict(kind='rename', naming='numeric', order=[0, 1, 2, 3], two_node=True, T=2, wacc=True, repeat=True)))
    # order of the assets INSIDE a structured / linked asset
    for o in ((1, 0, 2), (2, 1, 0)) if tier != 'thorough' else [p_ for p_ in itertools.permutations(range(3)) if list(p_) != [0, 1, 2]]:
        out.append(('structured_inner_order_%s' % ''.join(map(str, o)), dict(kind='inner', which='structured', order=list(o), T=5)))
    for o in ((3, 2, 0, 1), (2, 3, 1, 0), (0, 1, 3, 2)) if tier != 'thorough' else [p_ for p_ in itertools.permutations(range(4)) if list(p_) != [0, 1, 2, 3]][::3]:
        out.append(('linked_inner_order_%s' % ''.join(map(str, o)), dict(kind='inner', which='linked', order=list(o), T=3)))
    for nm in ('numeric', 'numeric_like', 'blanks_only_difference'):
        out.append(('rename_%s_with_coarse_asset' % nm, dict(kind='rename', naming=nm, order=[0, 1, 2, 3], two_node=False, T=4, coarse=True)))
    out.append(('rename_and_order', dict(kind='rename', naming='numeric', order=[2, 0, 3, 1], two_node=True, T=3)))
    for nm in ('node_is_suffix_of_the_other', 'node_is_prefix_of_the_other', 'numeric'):
        out.append(('rename_%s_transport_with_take' % nm, dict(kind='rename', naming=nm, order=[0, 1, 2, 3], two_node=False, T=2, ext=True)))
    out.append(('list_reordered_in_place_after_construction', dict(kind='rename', naming=None, order=[3, 2, 1, 0], two_node=False, T=2, reorder_after=True)))
    out.append(('list_reordered_in_place_after_construction_renamed', dict(kind='rename', naming='numeric', order=[1, 0, 3, 2], two_node=True, T=2, reorder_after=True)))
    out.append(('many_variables_1x_x', dict(kind='rename', naming='many', order=[0, 1], two_node=False, T=12)))
    out.append(('many_steps_nodes_N1_N11', dict(kind='rename', naming='many_nodes', order=[0, 1, 2, 3], two_node=False, T=12, many='nodes')))
    for nm, names in (('substring', ('gen', 'gen_big')), ('numeric', ('1', '12')), ('plain', ('ga', 'gb'))):
        for swap in (False, True):
            out.append(('linked_%s%s' % (nm, '_swapped' if swap else ''), dict(kind='linked', names=list(names), swap=swap, T=3)))
    return out


BOUNDS = dict(quick='namings %s x identity order, orders %s, one- and two-node storage, LinkedAsset by name with 3 name pairs x 2 orders; T<=3' % (list(NAMINGS), QUICK_ORDERS),
              thorough='all 24 orders, all namings, one- and two-node storage')
OUTSIDE = ['names are taken from a fixed adversarial list (no solver search over strings)', 'more than 4 assets / 2 nodes']


# ------------------------------------------------------------------------------------------------ builders
def build_many(D, names, T):
    """two contracts with many variables each (index strings of two and more digits)"""
    eao = lift.import_eao()
    tg = shapes.grid(T)
    n0 = eao.assets.Node('n0')
    c1 = shapes.mk_market(D, 'c1', n0, T, 'p')
    c2 = shapes.mk_market(D, 'c2', n0, T, 'q')
    c1.name, c2.name = names
    pf = eao.portfolio.Portfolio([c1, c2])
    return pf, tg, shapes.prices_for(D, ['p', 'q'], T), dict(c1=names[0], c2=names[1]), dict(n0='n0')


def build_many_nodes(D, node_names, T):
    """two unconnected nodes with two contracts each and two-digit step indices: a key built from node name and step without a
    separator ('N1'+'10' == 'N11'+'0') would fuse balances of different nodes"""
    eao = lift.import_eao()
    tg = shapes.grid(T)
    n0, n1 = eao.assets.Node(node_names[0]), eao.assets.Node(node_names[1])
    c1 = shapes.mk_market(D, 'c1', n0, T, 'p')
    m2 = shapes.mk_market(D, 'm2', n0, T, 'q', ec=True)
    m3 = shapes.mk_market(D, 'm3', n1, T, 'q')
    c2 = shapes.mk_market(D, 'c2', n1, T, 'p', ec=True)
    pf = eao.portfolio.Portfolio([c1, m2, m3, c2])
    return pf, tg, shapes.prices_for(D, ['p', 'q'], T), {r: r for r in ('c1', 'm2', 'm3', 'c2')}, dict(n0=node_names[0], n1=node_names[1])


def build(D, naming, order, two_node, T, wacc=False, coarse=False, many=None, reorder_after=False, ext=False):
    """baseline roles are the symbol names; the asset / node names are nu(role)"""
    eao = lift.import_eao()
    if many == 'nodes':
        return build_many_nodes(D, ('N1', 'N11') if naming == 'many_nodes' else ('n0', 'n1'), T)
    if naming == 'many':
        return build_many(D, ('1x', 'x'), T)
    if naming is None and T == 12:
        return build_many(D, ('c1', 'c2'), T)
    an, nn = NAMINGS[naming] if naming else ({r: r for r in ROLES}, {r: r for r in NODE_ROLES})
    tg = shapes.grid(T)
    n0, n1 = eao.assets.Node(nn['n0']), eao.assets.Node(nn['n1'])
    # wacc: assets with DIFFERENT discount rates (two of them none) -- whatever is shared between assets must not leak between them
    c1 = shapes.mk_market(D, 'c1', n0, T, 'p', ec=True, wacc=D('wacc_c1', lo=0) if wacc else 0)
    sto = shapes.mk_storage(D, 'sto', [n0, n1] if two_node else n1, eff=0.75)
    if ext:
        # a transport with a limit on the volume taken at its sending node (restriction rows select mapping rows by node name)
        tr = shapes.mk_transport(D, 'tr', n0, n1, eff=0.5, cls=eao.assets.ExtendedTransport, max_take=shapes.mk_take(tg, 0, T, D('tr_maxtake', lo=0)))
    else:
        tr = shapes.mk_transport(D, 'tr', n0, n1, eff=0.5, wacc=D('wacc_tr', lo=0) if wacc else 0)
    c2 = shapes.mk_market(D, 'c2', n1, T, 'q', **(dict(freq='2h') if coarse else {}))      # coarse: an asset with its own coarser frequency
    assets = [c1, sto, tr, c2]
    for a, r in zip(assets, ROLES):
        a.name = an[r]
    if reorder_after:
        # the list object handed to Portfolio(...) is reordered IN PLACE afterwards (e.g. to build a second, permuted portfolio from it)
        lst = list(assets)
        pf = eao.portfolio.Portfolio(lst)
        lst[:] = [assets[i] for i in order]
    else:
        pf = eao.portfolio.Portfolio([assets[i] for i in order])
    prices = shapes.prices_for(D, ['p', 'q'], T)
    return pf, tg, prices, an, nn


def build_linked(D, names, swap, T):
    eao = lift.import_eao()
    tg = shapes.grid(T)
    nP = eao.assets.Node('P')
    a = shapes.mk_plant(D, 'ga', [nP], T, price='p', fuel=False, mr=0, sym_cap=True)
    b = shapes.mk_plant(D, 'gb', [nP], T, price='q', fuel=False, mr=2, sym_cap=True)
    a.name, b.name = names
    inner = eao.portfolio.Portfolio([b, a] if swap else [a, b])
    la = eao.portfolio.LinkedAsset(inner, asset1_variable=(names[0], 'disp', 'P'), asset2_variable=(names[1], 'bool_on', None),
                                   name='link', nodes=nP, time_back=1, time_forward=0, asset2_time_already_running=0)
    pf = eao.portfolio.Portfolio([la, shapes.mk_market(D, 'mP', nP, T, 'r')])
    prices = shapes.prices_for(D, ['p', 'q', 'r'], T)
    return pf, tg, prices


def build_inner(D, which, order, T):
    """wrappers with an inner portfolio given in `order`: the order of the WRAPPED assets must not matter either"""
    eao = lift.import_eao()
    tg = shapes.grid(T)
    if which == 'structured':
        nI, nE = shapes.nodes('I', 'E')
        early = shapes.mk_market(D, 'early', nI, T, 'p', win=(0, 3), tg=tg)
        late = shapes.mk_market(D, 'late', nI, T, 'q', ec=True, win=(2, 5), tg=tg)
        pipe = shapes.mk_transport(D, 'pipe', nI, nE, eff=0.5, win=(0, 5), tg=tg)
        inner = [early, late, pipe]
        s_, e_ = shapes.window(tg, (1, 4))
        w = eao.portfolio.StructuredAsset(name='struct', nodes=nE, portfolio=eao.portfolio.Portfolio([inner[i] for i in order]), start=s_, end=e_)
        pf = eao.portfolio.Portfolio([w, shapes.mk_market(D, 'sink', nE, T, 'r')])
    else:
        nP, nQ = shapes.nodes('P', 'Q')
        ga = shapes.mk_plant(D, 'ga', [nP], T, price='p', fuel=False, mr=0, sym_cap=True)
        gb = shapes.mk_plant(D, 'gb', [nP], T, price='q', fuel=False, mr=2, sym_cap=True)
        aux = shapes.mk_market(D, 'aux', nQ, T, 'r', ec=True, win=(1, T), tg=tg)      # a wrapped asset living in a window of its own
        line = shapes.mk_transport(D, 'line', nQ, nP, eff=0.5)
        inner = [ga, gb, aux, line]
        w = eao.portfolio.LinkedAsset(eao.portfolio.Portfolio([inner[i] for i in order]), asset1_variable=('ga', 'disp', 'P'), asset2_variable=('gb', 'bool_on', None),
                                      name='link', nodes=nP, time_back=1, time_forward=0, asset2_time_already_running=0)
        pf = eao.portfolio.Portfolio([w, shapes.mk_market(D, 'mP', nP, T, 'r')])
    return pf, tg, shapes.prices_for(D, ['p', 'q', 'r'], T)


def renamer(an, nn):
    inv_a = {v: k for k, v in an.items()}
    inv_n = {v: k for k, v in nn.items()}

    def ren(k):
        asset, vn, t, node = k
        return (inv_a.get(asset, asset), vn, t, inv_n.get(node, node) if node is not None else None)
    return ren


def linked_renamer(names):
    m = {names[0]: 'ga', names[1]: 'gb'}

    def ren(k):
        asset, vn, t, node = k
        if '__' in vn:
            base, inner = vn.rsplit('__', 1)
            vn = base + '__' + m.get(inner, inner)
        return (asset, vn, t, node)
    return ren


# ------------------------------------------------------------------------------------------------ run
def run_case(case_id, tier, seed, kind, **kw):
    rec = lpsem.Rec(PROP, case_id)
    eao = lift.import_eao()
    T = kw['T']

    def bld(D):
        if kind == 'rename':
            pf, tg, prices, an, nn = build(D, kw['naming'], kw['order'], kw['two_node'], T, kw.get('wacc', False), kw.get('coarse', False), kw.get('many'), kw.get('reorder_after', False), kw.get('ext', False))
            pf0, tg0, prices0, an0, nn0 = build(D, None, [0, 1, 2, 3], kw['two_node'], T, kw.get('wacc', False), kw.get('coarse', False), kw.get('many'), False, kw.get('ext', False))
            ren = renamer(an, nn)
            colmap = dict(assets=an, nodes=nn)
        elif kind == 'inner':
            pf, tg, prices = build_inner(D, kw['which'], kw['order'], T)
            pf0, tg0, prices0 = build_inner(D, kw['which'], sorted(kw['order']), T)
            ren = None
            colmap = None
        else:
            pf, tg, prices = build_linked(D, kw['names'], kw['swap'], T)
            pf0, tg0, prices0 = build_linked(D, ['ga', 'gb'], False, T)
            ren = linked_renamer(kw['names'])
            colmap = None
        if kw.get('repeat'):
            pf.setup_optim_problem(prices, tg)        # re-optimisation: the same objects are set up again
        op = pf.setup_optim_problem(prices, tg)
        x = common.sym_x(len(op.c), 'x')
        out = eao.io.extract_output(pf, op, eao.optimization.Results(value=Sym.var('value'), x=x, duals=None))
        op0 = pf0.setup_optim_problem(prices0, tg0)
        return pf, pf0, tg, op, x, out, op0, ren, colmap
    res = lift.explore_build(bld, level='A')
    rec.paths = len(res)
    validated = False
    for pi, (path, D) in enumerate(res):
        P = 'p%d' % pi
        if path.exc is not None:
            if common.is_rejection(path.exc):
                rec.rejected_paths += 1
                continue
            common.crash_candidate(rec, P + '/crash', path, D, info=dict(kind='crash'))
            continue
        pf, pf0, tg, op, xs, out, op0, ren, colmap = path.result
        PR, PB = lpsem.LP(op), lpsem.LP(op0)
        base = list(D.pre) + path.pc + sym.atom_constraints()
        x = [zl(v) for v in xs]
        terms, missing = embed_lp.phi_by_keys(PR, x, PB, rename_P=ren)
        y = PB.mk_x('y')
        terms2, missing2 = embed_lp.phi_by_keys(PB, y, PR, rename_Q=ren)
        if missing or missing2 or PR.n != PB.n:
            rec.obligations.append(dict(name=P + '/keys', verdict='sat', secs=0, form='struct'))
            rec.candidates.append(dict(name=P + '/keys', env={}, info=dict(kind='keys', missing=[missing[:4], missing2[:4]], n=[PR.n, PB.n]), form='struct'))
            continue
        embed_lp.embed(rec, P + '/renamed2base', base, PR, x, PB, terms, rel='==', info=dict(kind='emb', dir='renamed2base'))
        embed_lp.embed(rec, P + '/base2renamed', base, PB, y, PR, terms2, rel='==', info=dict(kind='emb', dir='base2renamed'))
        # outputs up to relabelling
        xb = np.empty(PB.n, dtype=object)
        for i, t_ in enumerate(terms):
            xb[i] = Sym(t_)
        out0 = eao.io.extract_output(pf0, op0, eao.optimization.Results(value=Sym.var('value'), x=xb, duals=None))
        assume = base + PR.feas(x)
        goals = []
        if colmap is not None:
            an, nn = colmap['assets'], colmap['nodes']
            for r in [r_ for r_ in ROLES if r_ in an]:
                a0 = [a for a in pf0.assets if a.name == r][0]
                for n in a0.nodes:
                    c0 = '%s (%s)' % (r, n.name) if len(pf0.nodes) > 1 else r
                    c1 = '%s (%s)' % (an[r], nn[n.name]) if len(pf0.nodes) > 1 else an[r]
                    goals += _col_goals('dispatch', out, c1, out0, c0, tg.T)
                goals += _col_goals('DCF', out, an[r], out0, r, tg.T)
            for suf in (('_charge', '_discharge', '_fill_level') if 'sto' in an else ()):
                goals += _col_goals('internal_variables', out, an['sto'] + suf, out0, 'sto' + suf, tg.T)
        else:
            for tab in ('dispatch', 'DCF'):
                for c in out0[tab].columns:
                    goals += _col_goals(tab, out, c, out0, c, tg.T)
        todo = [g for g in goals if not z3.is_true(z3.simplify(g[1]))]
        rec.extra['output_cells_syntactically_equal'] = rec.extra.get('output_cells_syntactically_equal', 0) + len(goals) - len(todo)
        if todo:
            rec.prove_each(P + '/output', assume, todo, form='Q1', info=dict(kind='output'))
        if not validated:
            from .. import obs
            names = list(D.names) + ['x%d' % i for i in range(PR.n)]
            env = common.generic_point(assume, names, seed)
            if env is not None:
                for nm in names:
                    env.setdefault(nm, 0.0)
                env.setdefault('value', 0.0)
                rec.validations.append(dict(env=env, lifted=obs.to_jsonable(dict(renamed=obs.problem_obs(op), base=obs.problem_obs(op0),
                                                                                  out=obs.output_obs(out)), env)))
                validated = True
    return rec.result()


def _col_goals(tab, out, c1, out0, c0, T):
    if c1 not in out[tab].columns or c0 not in out0[tab].columns:
        return [('%s/%s' % (tab, c1), z3.BoolVal(c1 in out[tab].columns and c0 in out0[tab].columns), dict(kind='column', tab=tab, col=c1, col0=c0))]
    gs = []
    for t in range(T):
        a_, b_ = out[tab][c1].values[t], out0[tab][c0].values[t]
        if a_ is None and b_ is None:
            continue
        gs.append(('%s/%s/%d' % (tab, c1, t), zl(a_) == zl(b_), dict(kind='cell', tab=tab, col=c1, col0=c0, t=t)))
    return gs


# ------------------------------------------------------------------------------------------------ pristine
def observe(case, kwargs, env, rq):
    from .. import obs
    eao = lift.import_eao()
    D = lift.Domain(theta=env)
    kw = dict(kwargs)
    kind = kw.pop('kind')
    T = kw['T']
    if kind == 'rename':
        pf, tg, prices, an, nn = build(D, kw['naming'], kw['order'], kw['two_node'], T, kw.get('wacc', False), kw.get('coarse', False), kw.get('many'), kw.get('reorder_after', False), kw.get('ext', False))
        pf0, tg0, prices0, _, _ = build(D, None, [0, 1, 2, 3], kw['two_node'], T, kw.get('wacc', False), kw.get('coarse', False), kw.get('many'), False, kw.get('ext', False))
    elif kind == 'inner':
        pf, tg, prices = build_inner(D, kw['which'], kw['order'], T)
        pf0, tg0, prices0 = build_inner(D, kw['which'], sorted(kw['order']), T)
    else:
        pf, tg, prices = build_linked(D, kw['names'], kw['swap'], T)
        pf0, tg0, prices0 = build_linked(D, ['ga', 'gb'], False, T)
    if kw.get('repeat'):
        pf.setup_optim_problem(prices, tg)
    op = pf.setup_optim_problem(prices, tg)
    x = common.concrete_x(env, len(op.c))
    out = eao.io.extract_output(pf, op, eao.optimization.Results(value=float(env.get('value', 0.0)), x=x, duals=None))
    op0 = pf0.setup_optim_problem(prices0, tg0)
    o = dict(renamed=obs.problem_obs(op), base=obs.problem_obs(op0), out=obs.output_obs(out))
    if rq.get('kind') == 'replay':
        r1, r0 = op.optimize(), op0.optimize()
        o['v_P'] = None if isinstance(r1, str) else float(r1.value); o['s_P'] = r1 if isinstance(r1, str) else 'optimal'
        o['v_Q'] = None if isinstance(r0, str) else float(r0.value); o['s_Q'] = r0 if isinstance(r0, str) else 'optimal'
        info = rq.get('info', {})
        ren_ = renamer(an, nn) if kind == 'rename' else (None if kind == 'inner' else linked_renamer(kw['names']))
        if info.get('kind') == 'emb':
            if info.get('dir') == 'renamed2base':
                o['nums'] = embed_lp.replay_keys(op, op0, env, 'x', rename_P=ren_)
            else:
                o['nums'] = embed_lp.replay_keys(op0, op, env, 'y', rename_Q=ren_)
        if info.get('kind') in ('cell', 'column') and not isinstance(r1, str) and not isinstance(r0, str):
            # compare the reported tables at a COMMON point: the renamed optimum mapped onto the baseline by meaning
            PR, PB = lpsem.LP(op), lpsem.LP(op0)
            ren = renamer(an, nn) if kind == 'rename' else linked_renamer(kw['names'])
            kr = embed_lp.keymap(PR, ren)
            kb = PB.var_keys()
            xb = np.array([float(r1.x[kr[kb[i]]]) if i in kb and kb[i] in kr else 0.0 for i in range(PB.n)])
            o1 = obs.output_obs(eao.io.extract_output(pf, op, r1))
            o0 = obs.output_obs(eao.io.extract_output(pf0, op0, eao.optimization.Results(value=r1.value, x=xb, duals=None)))
            o['tab1'] = o1[info['tab']].get(info['col']); o['tab0'] = o0[info['tab']].get(info['col0'])
    return o


def judge(case, kwargs, cand, ans):
    info = cand.get('info', {})
    if cand.get('form') == 'crash' or 'crash' in info:
        return (True, 'raises on an in-domain input: ' + ans['error'][:200]) if 'error' in ans else (False, 'no exception')
    if 'error' in ans:
        return None, ans['error']
    o = ans['obs']
    if info.get('kind') == 'keys':
        return True, 'variables cannot be matched up to relabelling (%s); problem sizes %s' % (info.get('missing'), info.get('n'))
    bad, text = embed_lp.judge_values(o.get('v_P'), o.get('s_P'), o.get('v_Q'), o.get('s_Q'), '==', what=('renamed/permuted', 'baseline'))
    if bad:
        return True, text
    if info.get('kind') == 'emb' and 'nums' in o:
        what = ('renamed/permuted', 'baseline') if info.get('dir') == 'renamed2base' else ('baseline', 'renamed/permuted')
        return embed_lp.judge_numbers(o['nums'], info.get('label'), '==', what=what)
    if info.get('kind') in ('cell', 'column'):
        a_, b_ = o.get('tab1'), o.get('tab0')
        if a_ is None or b_ is None:
            return True, 'output column %s / %s missing' % (info.get('col'), info.get('col0'))
        d = max(abs((u or 0.0) - (v or 0.0)) for u, v in zip(a_, b_))
        return d > 1e-6 * max(1.0, max(abs(v or 0.0) for v in b_)), 'reported %s column %s differs from the baseline column %s by %.6g' % (info['tab'], info['col'], info['col0'], d)
    return False, text
