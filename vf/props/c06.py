"""C06 Plant/CHP unit commitment: runtime, downtime, initial state, capacity when on/off, ramps, starts, heat share, fuel.

(a) Q4 projection with quantifier alternation: the on/off patterns admitted by the real rows are EXACTLY Spec(on)
    soundness     D /\\ F(on, rest) /\\ not Spec(on)                     unsat
    completeness  D /\\ Spec(on) /\\ forall rest. not F(on, rest)        unsat   (all 2^T patterns decided symbolically)
(b) Q1 over all feasible points: off => virtual output 0; on => min*dt <= virt <= max*dt (start/shutdown profiles bound
    virt at profile steps instead); |virt_t - virt_{t-1}| <= ramp*dt for t>=1 and |virt_0 - last_dispatch*dt| <= ramp*dt;
    heat <= share*power.
(c) starts: off->on transition => start flag (all feasible points); a start flag without transition can be cleared (the point
    stays feasible) -- so with non-negative start costs/fuel optima flag exactly the transitions; with shutdown variables
    start_t - shutdown_t = on_t - on_{t-1} exactly.
(d) fuel: reported fuel-node dispatch (real extract_output) == -(power + cf*heat)/fe - consumption_if_on*dt*on - start_fuel*start.
"""
import itertools

import numpy as np
import z3

from .. import scen, common, sym, lpsem, lift, shapes
from ..sym import Sym, lift as zl

import builtins as _bi
builtins_max = _bi.max

PROP = 'C06'
BOUNDS = dict(quick='Plant and CHP, T=4 (patterns) / T<=3 (physics), min_runtime,min_downtime in 0..3, initial state off/on for 0..3 steps; '
              'capacities, ramp, last dispatch, costs, fuel parameters symbolic; start/shutdown profiles of length <=2',
              thorough='T in 4..6, all (runtime, downtime) in 0..3^2, initial states k<=3, profiles of length <=2, per-step symbolic conversion factor')
OUTSIDE = ['ramp_freq different from the grid frequency', 'coarse / periodic plants', 'horizons beyond T=6',
           'initial states that contradict themselves (time_already_running=0 with last_dispatch>0)']
ASSUMPTIONS = ['start/shutdown profile bounds do not exceed max_cap',
               'Spec(on) is the harness reading of the docstring: forced-on prefix max(0,min_runtime-already_running), forced-off prefix '
               'max(0,min_downtime-already_off), every off->on is followed by >= min_runtime on-steps and every on->off by >= '
               'min_downtime off-steps unless cut by the horizon end; prev(0) = already_running>0']


def _init_states(maxk):
    yield ('off', 0)            # neither counter set: off, no forced prefix
    for k in range(1, maxk + 1):
        yield ('off', k)
        yield ('on', k)


def cases(tier, seed):
    out = []
    if tier == 'thorough':
        Ts, rng, ks = (1, 2, 3, 4, 5, 6, 7), range(0, 4), 3
    else:
        Ts, rng, ks = (1, 2, 4), range(0, 4), 2       # T = 1, 2: forced prefixes (min runtime / downtime minus elapsed) longer than the horizon
    for T in Ts:
        for mr in rng:
            for md in rng:
                for st, k in _init_states(ks):
                    if md > 1 and st == 'off' and k == 0:
                        continue  # constructor requires exactly one counter to be zero
                    for heat in ((False, True) if (tier == 'thorough' and T <= 5) else (False,)):
                        cid = 'pat_T%d_mr%d_md%d_%s%d%s' % (T, mr, md, st, k, '_chp' if heat else '')
                        out.append((cid, dict(kind='pattern', T=T, mr=mr, md=md, tar=k if st == 'on' else 0,
                                              tao=k if st == 'off' else 0, heat=heat, start_costs=(mr + md) % 2 == 0)))
    # the same pattern obligations with durations given in main time units on grids whose step is not one unit
    for pg in PATTERN_GRIDS:
        for (mr, md, st, k) in sorted(_QUICK_PAT) if tier == 'thorough' else sorted(_QUICK_PAT)[::4]:
            out.append(('pat_%s_T4_mr%d_md%d_%s%d' % (pg, mr, md, st, k), dict(kind='pattern', T=4, mr=mr, md=md, tar=k if st == 'on' else 0,
                                                                              tao=k if st == 'off' else 0, heat=False, start_costs=True, pgrid=pg)))
    # ramp profiles without ramp_freq are per main time unit: omitting the argument = giving the main time unit explicitly (C19's form machinery)
    out.append(('default_ramp_freq_is_main_time_unit', dict(kind='forms', which='defaults_plant_ramp_freq')))
    # heat bounds of the start ramp given without heat bounds of the shutdown ramp (and the other way round) are in force
    out.append(('heat_start_profile_without_heat_shutdown_profile', dict(kind='forms', which='chp_heat_start_profile_only')))
    out.append(('heat_shutdown_profile_without_heat_start_profile', dict(kind='forms', which='chp_heat_shutdown_profile_only')))
    phys = PHYS_THOROUGH if tier == 'thorough' else PHYS_QUICK
    for cid, kw in phys:
        out.append((cid, dict(kind='physics', **kw)))
    return out


_QUICK_PAT = {(0, 0, 'off', 0), (2, 0, 'off', 0), (3, 0, 'on', 1), (3, 0, 'on', 2), (0, 2, 'off', 1), (0, 3, 'on', 1), (0, 3, 'on', 2),
              (2, 2, 'on', 1), (2, 2, 'off', 1), (3, 3, 'off', 2), (3, 2, 'on', 2), (2, 3, 'off', 1), (3, 3, 'on', 1), (0, 2, 'on', 2),
              (2, 0, 'on', 1), (3, 0, 'off', 2)}

PHYS_QUICK = [
    ('phys_plant_ramp_cold', dict(T=3, heat=False, fuel=True, mr=2, md=0, tar=0, tao=1, ramp=True)),
    ('phys_plant_ramp_running', dict(T=3, heat=False, fuel=False, mr=0, md=0, tar=2, tao=0, ramp=True, last='sym')),
    ('phys_chp_ramp_running_cf', dict(T=3, heat=True, fuel=True, mr=0, md=2, tar=1, tao=0, ramp=True, last='sym', cf='step')),
    ('phys_chp_cold', dict(T=2, heat=True, fuel=True, mr=2, md=0, tar=0, tao=2, ramp=False)),
    ('phys_plant_profiles', dict(T=4, heat=False, fuel=False, mr=0, md=0, tar=0, tao=1, ramp=True, sr=([1, 2], [1.5, 2.5]), sdr=([1], [2]))),
    ('phys_plant_quarter_hour_running', dict(T=3, heat=False, fuel=True, mr=0, md=0, tar=1, tao=0, ramp=True, last='sym', freq='15min')),
    ('phys_plant_profiles_lower_bounds_only_quarter_hours', dict(T=4, heat=False, fuel=False, mr=0, md=0, tar=0, tao=1, ramp=True, sr=([1, 2], [1, 2]), sdr=([1], [1]), lower_only=True, freq='15min', ramp_freq='15min')),
    ('phys_plant_shutdown_profile_into_a_step_of_lower_capacity', dict(T=4, heat=False, fuel=False, mr=0, md=0, tar=2, tao=0, ramp=True, last='sym', sdr=([1, 1.5], [2, 2.5]), maxcap_ts=[3.0, 3.0, 3.0, 1.25])),
    ('phys_plant_profiles_mincap_series', dict(T=4, heat=False, fuel=False, mr=0, md=0, tar=0, tao=1, ramp=False, sr=([1, 2], [1.5, 2.5]), mincap_ts=True)),
    # profiles as long as / longer than the horizon (rolling or split optimisation with short intervals)
    ('phys_plant_profiles_longer_than_horizon', dict(T=2, heat=False, fuel=False, mr=0, md=0, tar=0, tao=1, ramp=True, sr=([1, 2, 2.5], [1.5, 2.5, 3]), sdr=([1, 2, 2.5], [2, 3, 3.5]))),
    ('phys_plant_start_profile_running_T1', dict(T=1, heat=False, fuel=False, mr=0, md=0, tar=1, tao=0, ramp=True, last='sym', sr=([1, 2, 2.5], [1.5, 2.5, 3]))),
    ('phys_plant_minruntime_beyond_horizon', dict(T=1, heat=False, fuel=True, mr=3, md=0, tar=1, tao=0, ramp=False)),
    ('phys_plant_mindowntime_beyond_horizon', dict(T=2, heat=False, fuel=False, mr=2, md=4, tar=0, tao=1, ramp=False)),
    ('phys_plant_one_step_cold', dict(T=1, heat=False, fuel=True, mr=0, md=0, tar=0, tao=1, ramp=False)),
    ('phys_plant_profile_bands_running', dict(T=4, heat=False, fuel=False, mr=0, md=0, tar=2, tao=0, ramp=True, last='sym', sr=([1, 2], [1.5, 2.5]), sdr=([1, 1.5], [2, 2.5]))),
    ('phys_plant_shutdown_profile_T1', dict(T=1, heat=False, fuel=False, mr=0, md=0, tar=2, tao=0, ramp=True, last='sym', sdr=([1, 2], [2, 3]))),
]
PHYS_THOROUGH = PHYS_QUICK + [
    ('phys_plant_ramp_T4', dict(T=4, heat=False, fuel=True, mr=2, md=2, tar=0, tao=1, ramp=True)),
    ('phys_chp_ramp_T4_cf', dict(T=4, heat=True, fuel=True, mr=2, md=0, tar=3, tao=0, ramp=True, last='sym', cf='step')),
    ('phys_plant_profiles_running', dict(T=4, heat=False, fuel=False, mr=0, md=0, tar=1, tao=0, ramp=True, last='sym', sr=([1, 2], [1.5, 2.5]))),
    ('phys_plant_profiles_T5', dict(T=5, heat=False, fuel=True, mr=1, md=0, tar=0, tao=1, ramp=True, sr=([1, 2], [1.5, 2.5]), sdr=([1, 2], [2, 3]))),
    ('phys_chp_nostartvars', dict(T=3, heat=True, fuel=False, mr=0, md=0, tar=0, tao=1, ramp=True, start_costs=False)),
    ('phys_chp_ramp_cf_symbolic', dict(T=3, heat=True, fuel=False, mr=0, md=0, tar=1, tao=0, ramp=True, last='sym', cf='step', level='B')),
    ('phys_plant_minzero', dict(T=3, heat=False, fuel=False, mr=0, md=0, tar=0, tao=0, ramp=True, min_zero=True, start_costs=False)),
]


# ------------------------------------------------------------------------------------------------ helpers
def build_plant(D, T, heat, fuel, mr, md, tar, tao, ramp=False, last=None, cf=None, sr=None, sdr=None, start_costs=True,
                min_zero=False, portfolio=False, freq='h', mincap_ts=False, unit='h', ramp_freq=None, lower_only=False, maxcap_ts=False):
    eao = lift.import_eao()
    tg = shapes.grid(T, freq, unit)
    names = ['P'] + (['H'] if heat else []) + (['G'] if fuel else [])
    nds = shapes.nodes(*names)
    kw = {}
    if ramp_freq is not None:
        kw['ramp_freq'] = ramp_freq
    if cf == 'step' and heat:
        # time-varying conversion factor as interval data with per-step values (coefficient parameter: generic concrete values)
        vals = [D.coef('cf%d' % t, [0.5, 0.25, 1.0, 0.75, 0.2, 0.6][t % 6], lo_strict=0) for t in range(T)]
        kw['cf_sym'] = {'start': [tg.timepoints[t] for t in range(T)], 'end': [shapes.tstep(tg, t + 1) for t in range(T)], 'values': vals}
    pl = shapes.mk_plant(D, 'pl', nds, T, fuel=fuel, heat=heat, mr=mr, md=md, tar=tar, tao=tao, ramp=ramp, start_costs=start_costs,
                         last_dispatch=last, start_ramp=(sr[0], None) if (sr and lower_only) else sr, shutdown_ramp=(sdr[0], None) if (sdr and lower_only) else sdr,
                         min_cap_zero=min_zero, tg=tg, **kw)      # lower_only: the profiles are GIVEN as lower bounds only (upper = lower is the documented default)
    mincaps = None
    if mincap_ts:
        # time-dependent minimum capacity (a column of the price data), above the profile bounds and below max_cap
        mincaps = D.arr('mincap', T, lo_strict=0)
        pl.min_cap = 'mincap'
        if D.symbolic:
            for v in mincaps:
                D.assume(v <= lift.ctor_arg(pl, 'max_cap'))
    maxcaps = None
    if maxcap_ts:
        # time-dependent maximum capacity (a column of the price data): at least the minimum capacity in every step and at least the profile
        # bounds in every step but the last one -- the capacity of a step in which the plant is off must not matter (a plant that has followed
        # its shutdown profile is off in the last step, whatever the capacity there)
        # (given as a list: concrete capacities -- the attainability obligations quantify existentially over the parameters, so a capacity that
        #  must be small in one particular step is fixed by the case)
        maxcaps = np.array(maxcap_ts, dtype=float) if isinstance(maxcap_ts, (list, tuple)) else D.arr('maxcap', T, lo_strict=0)
        mn_ = lift.ctor_arg(pl, 'min_cap')
        pl.max_cap = 'maxcap'
        if D.symbolic:
            for t_, v in enumerate(maxcaps):
                concrete = not isinstance(v, Sym)
                D.assume(mn_ <= (float(v) if concrete else v))
                for prof in (sr, sdr):
                    if prof is not None and t_ < T - 1 and not concrete:
                        D.assume(v >= max(prof[1]))
    for prof in (sr, sdr):
        if prof is not None and D.symbolic and not maxcap_ts:
            D.assume(lift.ctor_arg(pl, 'max_cap') >= max(prof[1]))      # profile bounds lie within the capacity range (documented meaning of a ramp profile)
    prices = {'p': D.arr('p', T)}
    if mincaps is not None:
        prices['mincap'] = mincaps
    if maxcaps is not None:
        prices['maxcap'] = maxcaps
    return pl, tg, prices, nds


class Vars:
    """z3 variables for a problem: Bool for flagged variables, Real otherwise; val[i] is the arithmetic view"""

    def __init__(self, lp, prefix='x'):
        self.raw = []
        self.val = []
        for i in range(lp.n):
            if i in lp.bools:
                b = z3.Bool('%sb%d' % (prefix, i))
                self.raw.append(b)
                self.val.append(z3.If(b, z3.RealVal(1), z3.RealVal(0)))
            else:
                r = z3.Real('%s%d' % (prefix, i))
                self.raw.append(r)
                self.val.append(r)


def feas_b(lp, V, subst=None):
    """F with Bool-typed binaries: coefficient*binary is If(b, coefficient, 0) (keeps the query linear)"""
    subst = subst or {}
    cs = []

    def term(co, j):
        if j in subst:
            return co * subst[j]
        if j in lp.bools:
            return z3.If(V.raw[j], co, z3.RealVal(0))
        return co * V.val[j]
    for i in range(lp.n):
        v = subst.get(i, V.val[i])
        if i in lp.bools and i not in subst:
            # bounds of a binary: l <= b <= u
            cs.append(z3.Implies(V.raw[i], lp.u[i] >= 1)); cs.append(z3.Implies(z3.Not(V.raw[i]), lp.l[i] <= 0))
        else:
            cs.append(lp.l[i] <= v); cs.append(v <= lp.u[i])
    for coefs, ty, rhs in lp.rows:
        lhs = z3.Sum([term(co, j) for j, co in coefs.items()]) if coefs else z3.RealVal(0)
        cs.append(lhs <= rhs if ty == 'U' else (lhs >= rhs if ty == 'L' else lhs == rhs))
    return cs


def index_by(lp, T):
    """(var_name, node or None) -> list over steps of variable index"""
    keys = lp.var_keys()
    out = {}
    for i, (asset, vn, t, node) in keys.items():
        out.setdefault((vn, node), {})[t] = i
    return out


def spec(on, T, mr, md, tar, tao):
    cs = []
    if tar > 0:
        for t in range(min(T, max(0, mr - tar))):
            cs.append(on[t])
    if tao > 0:
        for t in range(min(T, max(0, md - tao))):
            cs.append(z3.Not(on[t]))
    prev = lambda t: on[t - 1] if t > 0 else z3.BoolVal(tar > 0)
    for t in range(T):
        start = z3.And(on[t], z3.Not(prev(t)))
        for k in range(1, mr):
            if t + k < T:
                cs.append(z3.Implies(start, on[t + k]))
        stop = z3.And(z3.Not(on[t]), prev(t))
        for k in range(1, md):
            if t + k < T:
                cs.append(z3.Implies(stop, z3.Not(on[t + k])))
    return z3.And(*cs) if cs else z3.BoolVal(True)


# ------------------------------------------------------------------------------------------------ cases
def run_case(case_id, tier, seed, kind, **kw):
    rec = lpsem.Rec(PROP, case_id)
    if kind == 'forms':
        from . import c19
        return c19.run_forms(rec, seed, **kw)
    if kind == 'pattern':
        return run_pattern(rec, seed, **kw)
    return run_physics(rec, seed, **kw)


# pattern cases on grids whose step is not one main time unit: durations are given in main time units (f = step length in main units),
# the specification stays in steps
PATTERN_GRIDS = {'30min_h': ('30min', 'h', 0.5), '12h_d': ('12h', 'd', 0.5), 'd_h': ('d', 'h', 24.0), '15min_min': ('15min', 'min', 15.0),
                 # durations that are NOT a multiple of the step are rounded up (documented): k steps are given as k - 0.4 steps
                 'h_rounded_up': ('h', 'h', 'ceil'), '30min_rounded_up': ('30min', 'h', 'ceil_half')}


def _dur_fn(f):
    """k steps -> the duration in main time units handed to the asset"""
    if f == 'ceil':
        return lambda k: (k - 0.4) if k > 0 else 0
    if f == 'ceil_half':
        return lambda k: (k - 0.4) * 0.5 if k > 0 else 0
    return lambda k: k * f


def run_pattern(rec, seed, T, mr, md, tar, tao, heat, start_costs, pgrid=None):
    freq, unit, f = PATTERN_GRIDS[pgrid] if pgrid else ('h', 'h', 1)
    dur = _dur_fn(f)

    def build(D):
        pl, tg, prices, nds = build_plant(D, T, heat, False, dur(mr), dur(md), dur(tar), dur(tao), start_costs=start_costs, freq=freq, unit=unit)
        return pl, pl.setup_optim_problem(prices, tg)
    res = lift.explore_build(build, level='A')
    rec.paths = len(res)
    validated = False
    for pi, (path, D) in enumerate(res):
        P = 'p%d' % pi
        if path.exc is not None:
            if common.is_rejection(path.exc):
                rec.rejected_paths += 1
                continue
            common.crash_candidate(rec, P + '/crash', path, D, info=dict(kind='pattern'))
            continue
        pl, op = path.result
        lp = lpsem.LP(op)
        V = Vars(lp)
        ix = index_by(lp, T)
        if ('bool_on', None) not in ix:
            rec.note('no on variables')
            continue
        on = [V.raw[ix[('bool_on', None)][t]] for t in range(T)]
        on_idx = {ix[('bool_on', None)][t] for t in range(T)}
        F = feas_b(lp, V)
        pre = list(D.pre) + path.pc
        if rec.vacuity(P, pre + F) is None:
            continue
        S = spec(on, T, mr, md, tar, tao)
        forced_all = (tar > 0 and mr - tar >= T) or (tao > 0 and md - tao >= T)      # the declared state pins the whole horizon
        rec.twin(P + '/sound', pre + F, z3.BoolVal(False) if forced_all else (z3.And(*[z3.Not(o) for o in on]) if tar == 0 else z3.And(*on)))
        rec.prove(P + '/sound', pre + F, S, form='Q4', info=dict(kind='sound', on=[ix[('bool_on', None)][t] for t in range(T)]))
        others = [V.raw[i] for i in range(lp.n) if i not in on_idx]
        # completeness: no pattern satisfying Spec is excluded by the rows -- for all parameter values in the domain
        goal = z3.Exists(others, z3.And(*F)) if others else z3.And(*F)
        rec.prove(P + '/complete', pre + [S], goal, form='Q4', info=dict(kind='complete', on=[ix[('bool_on', None)][t] for t in range(T)]),
                  margin=False)
        if not validated:
            region = pre + F
            names = list(D.names)
            env = common.generic_point(region, names, seed) or {}
            from .. import obs
            rec.validations.append(dict(env=env, lifted=obs.to_jsonable(dict(problem=obs.problem_obs(op)), env)))
            validated = True
    return rec.result()


def run_physics(rec, seed, T, heat, fuel, mr, md, tar, tao, ramp, last=None, cf=None, sr=None, sdr=None, start_costs=True,
                min_zero=False, level='A', freq='h', mincap_ts=False, ramp_freq=None, lower_only=False, maxcap_ts=False):
    eao = lift.import_eao()

    def build(D):
        pl, tg, prices, nds = build_plant(D, T, heat, fuel, mr, md, tar, tao, ramp=ramp, last=last, cf=cf, sr=sr, sdr=sdr,
                                          start_costs=start_costs, min_zero=min_zero, freq=freq, mincap_ts=mincap_ts, ramp_freq=ramp_freq, lower_only=lower_only, maxcap_ts=maxcap_ts)
        assets = [pl, shapes.mk_market(D, 'mP', nds[0], T, 'p')]
        k = 1
        if heat:
            assets.append(shapes.mk_market(D, 'mH', nds[k], T, 'h')); prices['h'] = D.arr('h', T); k += 1
        if fuel:
            assets.append(shapes.mk_market(D, 'mG', nds[k], T, 'g')); prices['g'] = D.arr('g', T)
        pf = eao.portfolio.Portfolio(assets)
        op = pf.setup_optim_problem(prices, tg)
        x = common.sym_x(len(op.c))
        out = eao.io.extract_output(pf, op, eao.optimization.Results(value=Sym.var('value'), x=x, duals=None))
        return pl, tg, pf, op, x, out, prices
    res = lift.explore_build(build, level=level)
    rec.paths = len(res)
    validated = False
    attain = {}      # (profile, position, bound) -> (verdict over all paths, replay candidate): the declared band is attainable, not only respected
    for pi, (path, D) in enumerate(res):
        P = 'p%d' % pi
        if path.exc is not None:
            if common.is_rejection(path.exc):
                rec.rejected_paths += 1
                continue
            common.crash_candidate(rec, P + '/crash', path, D, info=dict(kind='physics'))
            continue
        pl, tg, pf, op, x, out, prices = path.result
        lp = lpsem.LP(op)
        xs = [zl(v) for v in x]
        assume = list(D.pre) + path.pc + lp.feas(xs)
        if rec.vacuity(P, assume) is None:
            continue
        keys = lp.var_keys()
        ix = {}
        for i, (asset, vn, t, node) in keys.items():
            if asset == 'pl':
                ix.setdefault((vn, node), {})[t] = i
        dtv = [sym.ratval(sym.snap_fraction(float(v))) for v in tg.dt]
        power = [xs[ix[('disp', 'P')][t]] for t in range(T)]
        heatv = [xs[ix[('disp', 'H')][t]] for t in range(T)] if heat else [z3.RealVal(0)] * T
        # conversion factor per step, from the asset's parameter (harness side)
        if heat:
            cfp = lift.ctor_arg(pl, 'conversion_factor_power_heat')
            if isinstance(cfp, dict):
                cfs = [zl(v) for v in cfp['values']]
            else:
                cfs = [zl(cfp)] * T
            share = [zl(lift.ctor_arg(pl, 'max_share_heat'))] * T
        else:
            cfs = [z3.RealVal(0)] * T
        virt = [power[t] + cfs[t] * heatv[t] for t in range(T)]
        has_on = ('bool_on', None) in ix
        on = [xs[ix[('bool_on', None)][t]] for t in range(T)] if has_on else None
        has_start = ('bool_start', None) in ix
        start = [xs[ix[('bool_start', None)][t]] for t in range(T)] if has_start else None
        has_sd = ('bool_shutdown', None) in ix
        shut = [xs[ix[('bool_shutdown', None)][t]] for t in range(T)] if has_sd else None
        mn_t = [zl(v) for v in prices['mincap']] if mincap_ts else [zl((pl.min_cap if isinstance(pl.min_cap, str) else lift.ctor_arg(pl, 'min_cap')))] * T
        mx_t = [zl(v) for v in prices['maxcap']] if maxcap_ts else [zl(lift.ctor_arg(pl, 'max_cap'))] * T
        k_sr = len(sr[0]) if sr else 0
        k_sd = len(sdr[0]) if sdr else 0
        info0 = dict(kind='physics', T=T, heat=heat, fuel=fuel)
        rec.twin(P + '/cap', assume, virt[0] == mx_t[0] * dtv[0] + 1)

        def in_profile(t):
            """z3 condition: step t belongs to a start or shutdown profile"""
            conds = []
            for j in range(k_sr):
                if t - j >= 0:
                    conds.append(start[t - j] == 1)
                elif tar > 0 and tar == j - t:
                    conds.append(z3.BoolVal(True))     # started before the horizon, still in its start profile
            for j in range(k_sd):
                if t + j + 1 < T:
                    conds.append(shut[t + j + 1] == 1)
            return z3.Or(*conds) if conds else z3.BoolVal(False)
        for t in range(T):
            if has_on:
                rec.prove(P + '/off_zero/%d' % t, assume, z3.Implies(on[t] == 0, virt[t] == 0), form='Q1', info=dict(info0, ob='off_zero', t=t))
                normal = z3.And(on[t] == 1, z3.Not(in_profile(t)))
                rec.prove(P + '/on_range/%d' % t, assume, z3.Implies(normal, z3.And(virt[t] >= mn_t[t] * dtv[t], virt[t] <= mx_t[t] * dtv[t])),
                          form='Q1', info=dict(info0, ob='on_range', t=t))
            else:
                rec.prove(P + '/range/%d' % t, assume, z3.And(virt[t] >= mn_t[t] * dtv[t], virt[t] <= mx_t[t] * dtv[t]), form='Q1',
                          info=dict(info0, ob='on_range', t=t))
            # profile bounds
            for j in range(k_sr):
                if t - j >= 0:
                    lo, hi = sr[0][j], sr[1][j]
                    rec.prove(P + '/start_profile/%d/%d' % (t, j), assume,
                              z3.Implies(start[t - j] == 1, z3.And(virt[t] >= zl(lo) * dtv[t], virt[t] <= zl(hi) * dtv[t])), form='Q1',
                              info=dict(info0, ob='start_profile', t=t, j=j))
            if 0 < tar < k_sr and t < k_sr - tar:
                # started tar steps before the horizon: step t is position tar+t of the start profile
                lo, hi = sr[0][tar + t], sr[1][tar + t]
                rec.prove(P + '/start_profile_initial/%d' % t, assume, z3.And(virt[t] >= zl(lo) * dtv[t], virt[t] <= zl(hi) * dtv[t]), form='Q1',
                          info=dict(info0, ob='start_profile_initial', t=t, j=tar + t))
            for j in range(k_sd):
                if t + j + 1 < T:
                    lo, hi = sdr[0][j], sdr[1][j]
                    rec.prove(P + '/shutdown_profile/%d/%d' % (t, j), assume,
                              z3.Implies(shut[t + j + 1] == 1, z3.And(virt[t] >= zl(lo) * dtv[t], virt[t] <= zl(hi) * dtv[t])), form='Q1',
                              info=dict(info0, ob='shutdown_profile', t=t, j=j))
            if heat:
                rec.prove(P + '/heat_share/%d' % t, assume, heatv[t] <= share[t] * power[t], form='Q1', info=dict(info0, ob='heat_share', t=t))
        # completeness of the profile bands (plants without heat): both ends of every declared band can be reached by a feasible point
        if has_start and not heat and (k_sr or k_sd):
            import time as _time
            wanted = []
            # position j of a start as late as possible (step T-1), position j of a shutdown as late as possible (flag in step T-1), and
            # only where no other profile can claim the step
            for j in range(k_sr):
                t = T - 1
                if tar == 0 and t - j >= 0:      # (a running plant cannot be started a second time on these short horizons: runtime >= both ramps)
                    wanted += [(('start', j, b_), start[t - j] == 1, t, sr[0 if b_ == 'lo' else 1][j]) for b_ in ('lo', 'hi')]
            for j in range(k_sd):
                t = T - 2 - j
                # (EAO adds both ramp lengths to the minimum runtime -- documented: ramps do not count towards it; a shutdown flagged in step T-1
                #  must be reachable at all)
                total_run = mr + k_sr + k_sd
                reachable = (total_run <= T - 1) if tar == 0 else (builtins_max(0, total_run - tar) <= T - 1)
                if reachable and t >= (k_sr if tar == 0 else builtins_max(0, k_sr - tar)):
                    wanted += [(('shutdown', j, b_), shut[T - 1] == 1, t, sdr[0 if b_ == 'lo' else 1][j]) for b_ in ('lo', 'hi')]
            for key, flag, t, bound in wanted:
                if attain.get(key, ('', None))[0] == 'sat':
                    continue
                sol = z3.Solver(); sol.set('timeout', 60000)
                sol.add(*(assume + [flag, virt[t] == zl(bound) * dtv[t]]))
                t_ = _time.time(); r = str(sol.check()); rec.solver_s += _time.time() - t_
                if r == 'sat':
                    attain[key] = ('sat', None)
                elif key not in attain or (r == 'unknown' and attain[key][0] == 'unsat'):
                    env = common.generic_point(list(D.pre) + path.pc, D.names, seed) or {}
                    attain[key] = (r, dict(env=env, info=dict(info0, ob='band_attainable', profile=key[0], j=key[1], side=key[2], t=t,
                                                             flag_index=(ix[('bool_start', None)][t - key[1]] if key[0] == 'start' else ix[('bool_shutdown', None)][T - 1]),
                                                             disp_index=ix[('disp', 'P')][t])))
        if ramp:
            rp = zl(lift.ctor_arg(pl, 'ramp'))
            for t in range(1, T):
                free = z3.BoolVal(True)
                if has_start and (k_sr or k_sd):
                    free = z3.And(z3.Not(in_profile(t)), z3.Not(in_profile(t - 1)))
                d = virt[t] - virt[t - 1]
                rec.prove(P + '/ramp/%d' % t, assume, z3.Implies(free, z3.And(d <= rp * dtv[t], -d <= rp * dtv[t])), form='Q1',
                          info=dict(info0, ob='ramp', t=t))
            ld = zl(lift.ctor_arg(pl, 'last_dispatch')) * dtv[0]
            d0 = virt[0] - ld
            free0 = z3.BoolVal(True)
            if has_start and (k_sr or k_sd):
                # step -1 was position j of the shutdown profile if the plant is shut down at step j
                before = z3.Or(*[shut[j] == 1 for j in range(min(k_sd, T))]) if k_sd else z3.BoolVal(False)
                free0 = z3.And(z3.Not(in_profile(0)), z3.Not(before))
            consistent = [] if tar > 0 else [zl(lift.ctor_arg(pl, 'last_dispatch')) == 0]
            rec.prove(P + '/ramp/0', assume + consistent, z3.Implies(free0, z3.And(d0 <= rp * dtv[0], -d0 <= rp * dtv[0])), form='Q1',
                      info=dict(info0, ob='ramp0'))
        # starts
        if has_start:
            prev = lambda t: on[t - 1] if t > 0 else z3.RealVal(1 if tar > 0 else 0)
            for t in range(T):
                rec.prove(P + '/start_flag/%d' % t, assume, z3.Implies(z3.And(on[t] == 1, prev(t) == 0), start[t] == 1), form='Q1',
                          info=dict(info0, ob='start_flag', t=t))
                if has_sd:
                    if t > 0:
                        rec.prove(P + '/start_shutdown_exact/%d' % t, assume, start[t] - shut[t] == on[t] - on[t - 1], form='Q1',
                                  info=dict(info0, ob='exact', t=t))
                    else:
                        rec.prove(P + '/start_shutdown_exact/0', assume, start[0] - shut[0] == on[0] - prev(0), form='Q1',
                                  info=dict(info0, ob='exact', t=0))
                else:
                    # exchange: a start flag without a transition can be cleared and the point stays feasible
                    i_s = ix[('bool_start', None)][t]
                    xs2 = list(xs); xs2[i_s] = z3.RealVal(0)
                    spurious = z3.And(start[t] == 1, z3.Not(z3.And(on[t] == 1, prev(t) == 0)))
                    # the plant's own bounds and rows (the portfolio's nodal rows would make the fuel market follow)
                    goals = lp.feas(xs2, rows=False) + [lpsem.row_constraint(co, ty, rhs, xs2) for co, ty, rhs in lp.rows if ty != 'N']
                    rec.prove(P + '/start_clearable/%d' % t, assume + [spurious], z3.And(*goals), form='Q3',
                              info=dict(info0, ob='clearable', t=t), margin=False)
        # fuel reporting
        if fuel:
            disp = out['dispatch']
            col = 'pl (G)'
            fe = zl(lift.ctor_arg(pl, 'fuel_efficiency')); cio = zl(lift.ctor_arg(pl, 'consumption_if_on')); sf = zl(lift.ctor_arg(pl, 'start_fuel'))
            for t in range(T):
                want = -(virt[t]) / fe
                if has_on:
                    want = want - cio * dtv[t] * on[t]
                if has_start:
                    want = want - sf * start[t]
                rec.prove(P + '/fuel/%d' % t, assume, zl(disp[col].values[t]) == want, form='Q1', info=dict(info0, ob='fuel', t=t))
        if not validated:
            from .. import obs
            names = list(D.names) + ['x%d' % i for i in range(lp.n)]
            env = common.generic_point(assume, names, seed)
            if env is not None:
                for nm in names:
                    env.setdefault(nm, 0.0)
                env.setdefault('value', 0.0)
                rec.validations.append(dict(env=env, lifted=obs.to_jsonable(dict(problem=obs.problem_obs(op), output=obs.output_obs(out)), env)))
                validated = True
    for key, (r, cand) in sorted(attain.items()):
        nm = 'all_paths/band_attainable/%s/%d/%s' % key
        rec.distinct.add(nm)
        rec.obligations.append(dict(name=nm, verdict={'sat': 'unsat', 'unsat': 'sat'}.get(r, 'unknown'), secs=0.0, form='Q4',
                                    note='witness exists' if r == 'sat' else 'no feasible point reaches this end of the declared band'))
        if r == 'unsat':
            rec.candidates.append(dict(name=nm, form='Q4', env=cand['env'], info=cand['info']))
    return rec.result()


# ------------------------------------------------------------------------------------------------ pristine side
def observe(case, kwargs, env, rq):
    from .. import obs
    eao = lift.import_eao()
    D = lift.Domain(theta=env)
    kw = dict(kwargs)
    kind = kw.pop('kind')
    if kind == 'forms':
        from . import c19
        return c19.observe(case, kwargs, env, rq)
    if kind == 'pattern':
        freq_, unit_, f_ = PATTERN_GRIDS[kw['pgrid']] if kw.get('pgrid') else ('h', 'h', 1)
        dur_ = _dur_fn(f_)
        pl, tg, prices, nds = build_plant(D, kw['T'], kw['heat'], False, dur_(kw['mr']), dur_(kw['md']), dur_(kw['tar']), dur_(kw['tao']),
                                          start_costs=kw['start_costs'], freq=freq_, unit=unit_)
        op = pl.setup_optim_problem(prices, tg)
        o = dict(problem=obs.problem_obs(op))
        if rq.get('kind') == 'replay':
            info = rq.get('info', {})
            if info.get('kind') in ('sound', 'complete'):
                # pin the on/off pattern of the counterexample and let the real solver decide feasibility
                onv = [1.0 if env.get('xb%d' % i) else 0.0 for i in info['on']]
                for i, v in zip(info['on'], onv):
                    op.l[i] = v; op.u[i] = v
                r = op.optimize()
                o['pattern'] = onv
                o['feasible_with_pattern'] = not isinstance(r, str)
        return o
    T, heat, fuel = kw['T'], kw['heat'], kw['fuel']
    pl, tg, prices, nds = build_plant(D, T, heat, fuel, kw['mr'], kw['md'], kw['tar'], kw['tao'], ramp=kw.get('ramp'), last=kw.get('last'),
                                      cf=kw.get('cf'), sr=kw.get('sr'), sdr=kw.get('sdr'), start_costs=kw.get('start_costs', True),
                                      min_zero=kw.get('min_zero', False), freq=kw.get('freq', 'h'), mincap_ts=kw.get('mincap_ts', False), ramp_freq=kw.get('ramp_freq'), lower_only=kw.get('lower_only', False), maxcap_ts=kw.get('maxcap_ts', False))
    kw.pop('level', None)
    assets = [pl, shapes.mk_market(D, 'mP', nds[0], T, 'p')]
    k = 1
    if heat:
        assets.append(shapes.mk_market(D, 'mH', nds[k], T, 'h')); prices['h'] = D.arr('h', T); k += 1
    if fuel:
        assets.append(shapes.mk_market(D, 'mG', nds[k], T, 'g')); prices['g'] = D.arr('g', T)
    pf = eao.portfolio.Portfolio(assets)
    op = pf.setup_optim_problem(prices, tg)
    x = common.concrete_x(env, len(op.c))
    out = eao.io.extract_output(pf, op, eao.optimization.Results(value=float(env.get('value', 0.0)), x=x, duals=None))
    o = dict(problem=obs.problem_obs(op), output=obs.output_obs(out))
    if rq.get('kind') == 'replay':
        cfp = lift.ctor_arg(pl, 'conversion_factor_power_heat') if heat else 0.0
        o['par'] = dict(min=([float(v) for v in prices['mincap']] if kw.get('mincap_ts') else [float((pl.min_cap if isinstance(pl.min_cap, str) else lift.ctor_arg(pl, 'min_cap')))] * T), max=([float(v) for v in prices['maxcap']] if kw.get('maxcap_ts') else [float(lift.ctor_arg(pl, 'max_cap'))] * T), ramp=(float(lift.ctor_arg(pl, 'ramp')) if lift.ctor_arg(pl, 'ramp') is not None else None),
                        last=float(lift.ctor_arg(pl, 'last_dispatch')), cf=([float(v) for v in cfp['values']] if isinstance(cfp, dict) else [float(cfp)] * T),
                        share=float(lift.ctor_arg(pl, 'max_share_heat')) if heat else None, dt=[float(v) for v in tg.dt],
                        fe=float(lift.ctor_arg(pl, 'fuel_efficiency')) if fuel else None, cio=float(lift.ctor_arg(pl, 'consumption_if_on')) if fuel else None,
                        sf=float(lift.ctor_arg(pl, 'start_fuel')) if fuel else None)
    return o


def judge(case, kwargs, cand, ans):
    info = cand.get('info', {})
    if cand.get('form') == 'crash' or 'crash' in info:
        return (True, 'raises on an in-domain input: ' + ans['error'][:200]) if 'error' in ans else (False, 'no exception')
    if 'error' in ans:
        return None, ans['error']
    o = ans['obs']
    kind = info.get('kind')
    if kwargs.get('kind') == 'forms':
        from . import c19
        return c19.judge(case, kwargs, cand, ans)
    if kind == 'sound':
        # the rows admitted a pattern outside Spec: real solver must find the pinned pattern feasible
        return (True, 'pattern %s violates runtime/downtime/initial state but is feasible' % o.get('pattern')) if o.get('feasible_with_pattern') \
            else (False, 'real solver finds the pattern infeasible')
    if kind == 'complete':
        return (True, 'pattern %s respects runtime/downtime/initial state but is infeasible' % o.get('pattern')) if o.get('feasible_with_pattern') is False \
            else (False, 'real solver finds the pattern feasible')
    p = o['problem']
    if info.get('ob') == 'band_attainable':
        dt = o['par']['dt']
        xs_, cons = scen.z3_feasible_region(p)
        side = 0 if info['side'] == 'lo' else 1
        prof = kwargs['sr'] if info['profile'] == 'start' else kwargs['sdr']
        bound = prof[side][info['j']] * dt[info['t']]
        sol = z3.Solver(); sol.set('timeout', 120000)
        sol.add(*cons); sol.add(xs_[info['flag_index']] == 1, xs_[info['disp_index']] == z3.RealVal(str(bound)))
        r = str(sol.check())
        if r == 'unsat':
            return True, 'no feasible point of the real problem has output %.6g (the %s end of position %d of the %s profile) at step %d' % (bound, info['side'], info['j'], info['profile'], info['t'])
        return (False, 'the band end is attainable') if r == 'sat' else (None, 'solver: ' + r)
    n = len(p['c'])
    x = [cand['env'].get('x%d' % i, 0.0) for i in range(n)]
    r = scen.feasibility_residual(p, x)
    if r > 1e-6:
        return False, 'counterexample x infeasible for the unshimmed problem (residual %.3g)' % r
    par = o['par']; T = info['T']; dt = par['dt']
    ix = {}
    for m in p['mapping']:
        if m['asset'] == 'pl':
            ix.setdefault((m['var_name'], m.get('node')), {}).setdefault(m['time_step'], m['index'])
    power = [x[ix[('disp', 'P')][t]] for t in range(T)]
    heatv = [x[ix[('disp', 'H')][t]] for t in range(T)] if info['heat'] else [0.0] * T
    virt = [power[t] + par['cf'][t] * heatv[t] for t in range(T)]
    on = [x[ix[('bool_on', None)][t]] for t in range(T)] if ('bool_on', None) in ix else None
    st = [x[ix[('bool_start', None)][t]] for t in range(T)] if ('bool_start', None) in ix else None
    sd = [x[ix[('bool_shutdown', None)][t]] for t in range(T)] if ('bool_shutdown', None) in ix else None
    ob = info.get('ob'); t = info.get('t')
    tol = 1e-6 * max([1.0] + list(par['max']))
    tar = kwargs.get('tar', 0)
    if ob == 'off_zero':
        return (on[t] < 0.5 and abs(virt[t]) > tol), 'step %d: off but virtual output %.6g' % (t, virt[t])
    if ob == 'on_range':
        bad = (on is None or on[t] > 0.5) and (virt[t] < par['min'][t] * dt[t] - tol or virt[t] > par['max'][t] * dt[t] + tol)
        return bad, 'step %d: on with virtual output %.6g outside [%.6g, %.6g]' % (t, virt[t], par['min'][t] * dt[t], par['max'][t] * dt[t])
    if ob == 'heat_share':
        return heatv[t] > par['share'] * power[t] + tol, 'step %d: heat %.6g > share*power %.6g' % (t, heatv[t], par['share'] * power[t])
    if ob == 'ramp':
        d = virt[t] - virt[t - 1]
        return abs(d) > par['ramp'] * dt[t] + tol, 'step %d: virtual output changes by %.6g, ramp*dt %.6g' % (t, d, par['ramp'] * dt[t])
    if ob == 'ramp0':
        d = virt[0] - par['last'] * dt[0]
        return abs(d) > par['ramp'] * dt[0] + tol, 'first step: virtual output %.6g vs last dispatch %.6g, ramp*dt %.6g' % (virt[0], par['last'] * dt[0], par['ramp'] * dt[0])
    if ob == 'start_flag':
        prev = on[t - 1] if t > 0 else (1.0 if tar > 0 else 0.0)
        return (on[t] > 0.5 and prev < 0.5 and st[t] < 0.5), 'step %d: off->on transition without start flag' % t
    if ob == 'exact':
        prev = on[t - 1] if t > 0 else (1.0 if tar > 0 else 0.0)
        return abs((st[t] - sd[t]) - (on[t] - prev)) > 1e-6, 'step %d: start-shutdown = %g but on-prev = %g' % (t, st[t] - sd[t], on[t] - prev)
    if ob == 'clearable':
        x2 = list(x); x2[ix[('bool_start', None)][t]] = 0.0
        keep = [k for k, ty in enumerate(p['cType']) if ty != 'N']
        p2 = dict(p, A=[p['A'][k] for k in keep], b=[p['b'][k] for k in keep], cType=''.join(p['cType'][k] for k in keep))
        r2 = scen.feasibility_residual(p2, x2)
        return r2 > 1e-6, 'step %d: clearing a start flag without transition makes the point infeasible (residual %.3g)' % (t, r2)
    if ob == 'start_profile_initial':
        t, j = info['t'], info['j']
        lo, hi = kwargs['sr'][0][j] * dt[t], kwargs['sr'][1][j] * dt[t]
        return (virt[t] < lo - tol or virt[t] > hi + tol), 'step %d is position %d of a start begun before the horizon: virtual output %.6g outside [%.6g,%.6g]' % (t, j, virt[t], lo, hi)
    if ob in ('start_profile', 'shutdown_profile'):
        j = info['j']
        prof = kwargs['sr'] if ob == 'start_profile' else kwargs['sdr']
        act = st[t - j] > 0.5 if ob == 'start_profile' else sd[t + j + 1] > 0.5
        lo, hi = prof[0][j] * dt[t], prof[1][j] * dt[t]
        return (act and (virt[t] < lo - tol or virt[t] > hi + tol)), 'step %d: profile position %d, virtual output %.6g outside [%.6g,%.6g]' % (t, j, virt[t], lo, hi)
    if ob == 'fuel':
        rep = o['output']['dispatch']['pl (G)'][t]
        want = -virt[t] / par['fe'] - (par['cio'] * dt[t] * on[t] if on is not None else 0.0) - (par['sf'] * st[t] if st is not None else 0.0)
        return abs(rep - want) > tol, 'step %d: reported fuel dispatch %.6g vs %.6g' % (t, rep, want)
    return None, 'unknown obligation'
