"""C20 Order book: fraction in [0,1] (0/1 with full execution), delivery = sum over covering orders of fraction x capacity x
step length, payment = fraction x capacity x price x covered duration (discounted per step); optimum equals an independent
one-variable-per-order formulation; orders without a step inside the horizon are inert.

Q3 two-way embeddings against vf/refmodel.py (orderbook clause) with a market and a storage as companions, Q1 for the reported
dispatch and the 'special' output rows (real extract_output on symbolic x).
"""
import z3

from .. import scen, common, sym, lpsem, lift, embed_ref, refmap
from ..sym import lift as zl

PROP = 'C20'
QUICK = [
    ('overlapping', dict(T=3), 'A'),
    ('outside_before_after', dict(T=3, orders=((-3, -1, 1.0), (0, 2, 2.0), (1, 3, -1.5), (5, 7, 1.0))), 'A'),
    ('outside_between', dict(T=3, orders=((0, 1, 2.0), (7, 9, 1.0), (1, 3, -1.5))), 'A'),
    ('partly_outside_wacc', dict(T=3, wacc=True, orders=((-1, 2, 2.0), (2, 5, -1.0), (0, 3, 0.5))), 'A'),
    ('full_exec', dict(T=3, full_exec=True, orders=((0, 2, 2.0), (1, 3, -1.5), (4, 6, 1.0))), 'A'),
    ('nested_no_storage', dict(T=4, storage=False, orders=((0, 4, 1.0), (1, 3, -2.0), (2, 3, 1.0))), 'A'),
    ('symbolic_capacity', dict(T=2, orders=((0, 2, 2.0), (1, 2, -1.5))), 'B'),
    ('daily_grid_wacc', dict(T=3, freq='d', wacc=True, orders=((0, 2, 2.0), (1, 3, -1.5))), 'A'),
    ('repeated_setup_same_grid', dict(T=3, wacc=True, late_companion=True, warmup=True), 'A'),
    # steps of different length: payment = capacity x price x covered DURATION, delivery = capacity x each step's own length
    ('dst_daily_grid_wacc', dict(T=4, freq=('d', '2021-03-27', '2021-03-31', 'CET'), wacc=True, orders=((0, 2, 2.0), (1, 4, -1.5), (1, 2, 1.0))), 'A'),
    ('monthly_grid', dict(T=4, freq=('MS', '2021-01-01', '2021-05-01', None), orders=((0, 2, 2.0), (1, 3, -1.5), (2, 4, 1.0))), 'A'),
    # order dates are instants: quoted in another zone / in the repeated hour at the end of daylight saving time
    ('orders_in_utc_on_cet_grid', dict(T=4, freq=('h', '2021-01-04 00:00', '2021-01-04 04:00', 'CET'), order_tz='UTC', orders=((0, 2, 2.0), (1, 4, -1.5), (2, 3, 1.0))), 'A'),
    # orders that start / end inside a step: a step is delivered (and paid) iff its grid point lies in [start, end)
    ('orders_start_and_end_inside_steps', dict(T=4, wacc=True, orders=((0.5, 3, 2.0), (1.25, 2.5, -1.5), (0, 1.5, 1.0))), 'A'),
    ('orders_inside_steps_daily_grid', dict(T=3, freq='d', orders=((0.25, 2, 2.0), (1, 2.75, -1.5))), 'A'),
    # orders given as a DataFrame; a buy and a sell order with the same period and the very same price stay two orders
    ('dataframe_buy_and_sell_same_period_and_price', dict(T=3, as_frame=True, same_price=(0, 1), orders=((0, 2, 2.0), (0, 2, -1.5), (1, 3, 1.0))), 'A'),
    ('dataframe_full_exec', dict(T=3, as_frame=True, full_exec=True, orders=((0, 2, 2.0), (1, 3, -1.5))), 'A'),
    ('orders_in_repeated_dst_hour', dict(T=6, freq=('h', '2021-10-31 00:00', '2021-10-31 05:00', 'CET'), orders=((3, 5, 2.0), (1, 3, -1.5), (2, 4, 1.0))), 'A'),
]
THOROUGH = QUICK + [
    ('overlapping_T4_wacc', dict(T=4, wacc=True, orders=((0, 2, 2.0), (1, 4, -1.5), (1, 2, 1.0), (3, 4, 3.0))), 'A'),
    ('all_outside', dict(T=3, orders=((-3, -1, 1.0), (5, 7, 1.0))), 'A'),
    ('full_exec_outside_first', dict(T=4, full_exec=True, orders=((-2, 0, 1.0), (0, 2, 2.0), (1, 4, -1.5))), 'A'),
    ('halfhour_grid', dict(T=4, freq='30min', orders=((0, 2, 2.0), (1, 4, -1.5))), 'A'),
    ('ob_last', dict(T=3, ob_last=True, orders=((0, 2, 2.0), (1, 3, -1.5), (6, 7, 1.0))), 'A'),
    ('symbolic_capacity_T3', dict(T=3, orders=((0, 2, 2.0), (1, 3, -1.5), (-1, 1, 1.0))), 'B'),
    # deeper: six steps and six orders (nested, straddling both ends, one outside), full execution on a DST day, half-step borders with discounting
    ('six_orders_T6_wacc', dict(T=6, wacc=True, orders=((0, 6, 1.0), (1, 3, -2.0), (2, 5, 1.5), (-1, 2, -0.5), (4, 8, 2.5), (7, 9, 1.0))), 'A'),
    ('full_exec_dst_daily_grid', dict(T=4, freq=('d', '2021-03-27', '2021-03-31', 'CET'), full_exec=True, orders=((0, 2, 2.0), (1, 4, -1.5), (1, 2, 1.0))), 'A'),
    ('orders_inside_steps_T5_wacc_daily', dict(T=5, freq='d', wacc=True, orders=((0.5, 4.5, 2.0), (1.75, 2.25, -1.5), (2, 4.01, 1.0), (4.99, 5, 1.0))), 'A'),
    ('dataframe_T5_ob_last', dict(T=5, as_frame=True, ob_last=True, orders=((0, 3, 2.0), (2, 5, -1.5), (1, 2, 1.0), (3, 4, -0.5))), 'A'),
]
BOUNDS = dict(quick='order lists %s; T<=4; <=4 orders; capacities concrete at Level A (symbolic in symbolic_capacity)' % [c[0] for c in QUICK],
              thorough='order lists %s' % [c[0] for c in THOROUGH])
OUTSIDE = ['more than 4 orders / T>4 (quick), more than 6 orders / T>6 (thorough)', 'order books on coarse frequency (EAO raises)']
TRUSTED = ['vf/refmodel.py (orderbook clause)']


def cases(tier, seed):
    lst = THOROUGH if tier == 'thorough' else QUICK
    out = [(cid, dict(kw=dict(kw), level=level)) for cid, kw, level in lst]
    # full execution is enforced by the solver: the variables declared boolean to it are exactly the execution variables of the orders, also when an
    # order without any step in the horizon (a variable without mapping row) is listed first (C03's recorder)
    out.append(('full_exec_booleans_reach_the_solver_outside_order_first', common.delegated('c03', kind='assembled', shape='orderbook', kw=dict(T=3, full_exec=True, orders=((-2, -1, 1.0), (0, 2, 2.0), (1, 3, -1.5))))))
    return out


def run_case(case_id, tier, seed, kw, level):
    rec = lpsem.Rec(PROP, case_id)
    kw = dict(kw)
    warmup = kw.pop('warmup', False)
    res = scen.explore('orderbook', kw, level=level, with_output=True, warmup=warmup)
    rec.paths = len(res)
    validated = False
    for pi, (path, D) in enumerate(res):
        P = 'p%d' % pi
        if path.exc is not None:
            if common.is_rejection(path.exc):
                rec.rejected_paths += 1
                continue
            common.crash_candidate(rec, P + '/crash', path, D)
            continue
        sc = path.result
        spec, R, lp = embed_ref.check(rec, P, D, path, sc.sh, sc.op)
        if any(c['info'].get('kind') == 'keys' for c in rec.candidates):
            continue
        # ---- reporting (Q1 over all feasible x, real extract_output)
        x = [zl(v) for v in sc.x]
        assume = list(D.pre) + path.pc + sym.atom_constraints() + lp.feas(x)
        ob = [a for a in spec['assets'] if a['kind'] == 'orderbook'][0]
        keys = refmap._first_keys(lp)
        disp = sc.out['dispatch']
        col = 'ob' if len(sc.sh.portf.nodes) == 1 else 'ob (A)'
        T = spec['T']
        evar = {}
        for j, o in enumerate(ob['orders']):
            if o['steps']:
                evar[j] = x[keys[('ob', str(j), o['steps'][0])]]
        for t in range(T):
            want = common.z3sum([evar[j] * o['capa'] * spec['dt'][t] for j, o in enumerate(ob['orders']) if t in o['steps']])
            rec.prove(P + '/delivery/%d' % t, assume, zl(disp[col].values[t]) == want, form='Q1', info=dict(kind='delivery', t=t))
        for j in evar:
            rec.prove(P + '/fraction/%d' % j, assume, z3.And(evar[j] >= 0, evar[j] <= 1), form='Q1', info=dict(kind='fraction', j=j))
        sp = sc.out['special']
        rows = sp[sp['asset'] == 'ob']
        names = [str(v) for v in rows['name'].values]
        want_names = [str(j) for j in sorted(evar)]
        if sorted(names) != sorted(want_names):
            rec.obligations.append(dict(name=P + '/special_rows', verdict='sat', secs=0, form='struct'))
            rec.candidates.append(dict(name=P + '/special_rows', env={}, info=dict(kind='special_rows', want=want_names), form='struct'))
        else:
            for nm, val, cost in zip(names, rows['value'].values, rows['costs'].values):
                j = int(nm)
                ci = lp.c[keys[('ob', str(j), ob['orders'][j]['steps'][0])]]
                rec.prove(P + '/special/%d' % j, assume, z3.And(zl(val) == evar[j], zl(cost) == evar[j] * ci), form='Q1',
                          info=dict(kind='special', j=j))
        if not validated:
            validated = scen.validation_request(rec, sc, D, path, seed)
    return rec.result()


def observe(case, kwargs, env, rq):
    D = lift.Domain(theta=env)
    kw_ = dict(kwargs.get('kw'))
    warmup = kw_.pop('warmup', False)
    sc = scen.run(D, 'orderbook', kw_, None, True, env=env, warmup=warmup)
    o = embed_ref.observe(sc.sh, sc.op, env, rq)
    o.update(scen.observation(sc))
    if rq.get('kind') == 'replay':
        spec = refmap.spec_from_shape(sc.sh)
        ob = [a for a in spec['assets'] if a['kind'] == 'orderbook'][0]
        o['orders'] = [dict(steps=q['steps'], capa=float(sym.evalf(q['capa'], {})), price=float(sym.evalf(q['price'], {}))) for q in ob['orders']]
        o['dt'] = [float(d) for d in spec['dt_frac']]
    return o


def judge(case, kwargs, cand, ans):
    info = cand.get('info', {})
    if cand.get('form') == 'crash' or 'crash' in info:
        return (True, 'raises on an in-domain input: ' + ans['error'][:200]) if 'error' in ans else (False, 'no exception')
    if 'dir' in info or info.get('kind') == 'keys':
        return embed_ref.judge(cand, ans)
    if 'error' in ans:
        return None, ans['error']
    o = ans['obs']; p = o['problem']
    n = len(p['c'])
    x = [cand['env'].get('x%d' % i, 0.0) for i in range(n)]
    if scen.feasibility_residual(p, x) > 1e-6:
        return False, 'witness x infeasible for the unshimmed problem'
    first = {}
    for m in p['mapping']:
        if m['asset'] == 'ob':
            first.setdefault(m['var_name'], m['index'])
    k = info.get('kind')
    if k == 'delivery':
        t = info['t']
        want = sum(x[first[str(j)]] * q['capa'] * o['dt'][t] for j, q in enumerate(o['orders']) if t in q['steps'])
        col = [c for c in o['output']['dispatch'] if c.startswith('ob')][0]
        got = o['output']['dispatch'][col][t]
        return abs(got - want) > 1e-6 * max(1, abs(want)), 'step %d: order book reported %.6g, orders deliver %.6g' % (t, got, want)
    if k == 'fraction':
        v = x[first[str(info['j'])]]
        return (v < -1e-9 or v > 1 + 1e-9), 'order %d executed at fraction %.6g' % (info['j'], v)
    sp = o['output']['special']
    rows = [i for i, a in enumerate(sp['asset']) if a == 'ob']
    if k == 'special_rows':
        got = sorted(str(sp['name'][i]) for i in rows)
        return got != sorted(info['want']), 'special rows for orders %s, expected %s' % (got, info['want'])
    if k == 'special':
        j = info['j']
        for i in rows:
            if str(sp['name'][i]) == str(j):
                e = x[first[str(j)]]; c = p['c'][first[str(j)]]
                bad = abs(sp['value'][i] - e) > 1e-9 or abs(sp['costs'][i] - e * c) > 1e-6 * max(1, abs(e * c))
                return bad, 'order %d: special row value %.6g costs %.6g vs fraction %.6g cost %.6g' % (j, sp['value'][i], sp['costs'][i], e, e * c)
        return True, 'no special row for order %d' % j
    return None, 'unknown obligation'
