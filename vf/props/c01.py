"""C01 Nodal balance: in every solution, at every node and step the reported dispatches net to zero.

Q1 over all feasible x: D /\\ path /\\ F(x) /\\ sum of the real extract_output's dispatch columns of node n at step t != 0  is unsat.
The check looks only at the *reported* dispatch (real io.extract_output on a symbolic x), not at how the nodal rows were
built, so a factor applied in the rows but not in the output (or vice versa), a skipped mapping row, a wrong node or a
wrong re-based step all surface.
"""
import z3

from .. import scen, common, sym, lpsem
from ..sym import lift as zl

PROP = 'C01'

QUICK = [
    ('two_node', dict(T=3), None, 'B'),
    ('two_node_2n_storage', dict(T=2, two_node_storage=True, wacc=True), None, 'B'),
    ('multicommodity', dict(T=3, take=(1, 3)), None, 'B'),
    ('plant_fuel', dict(T=3, fuel=True), None, 'B'),
    ('chp_fuel', dict(T=2, fuel=True, heat=True, ramp=True), None, 'B'),
    ('coarse_contract', dict(T=4, kind='contract'), None, 'B'),
    ('coarse_transport', dict(T=4, kind='transport', eff=0.5), None, 'B'),
    ('periodic_transport', dict(T=4, kind='transport', eff=0.5), None, 'B'),
    ('orderbook', dict(T=3), None, 'A'),
    ('scaled_transport', dict(T=2, base='transport'), None, 'B'),
    ('structured', dict(T=2), None, 'B'),
    ('ext_transport', dict(T=3), None, 'B'),
    ('split_two_node', dict(T=4, freq='12h', unit='h'), 'd', 'A'),
    ('window_transport', dict(T=4, win_t=(1, 3)), None, 'B'),
    ('windows_gap', dict(T=4), None, 'B'),
    ('split_orderbook_last', dict(T=4, ob_last=True, orders=((0, 1, 2.0), (2, 4, -1.5), (3, 4, 1.0))), '2h', 'A'),
    ('split_alternating_nodes', dict(T=4), '2h', 'A'),
    ('mixed_discount_rates', dict(T=2), None, 'B'),
    ('first_node_idle_in_second_interval', dict(T=4, win=(0, 2)), '2h', 'A'),
    ('first_node_outside_horizon', dict(T=3, win=(6, 8)), None, 'B'),
    ('first_node_idle_after_window', dict(T=4, win=(0, 2)), None, 'B'),
    ('multicommodity_three_nodes', dict(T=2, factors=(1.0, 0.5, 2.0), take=(0, 2)), None, 'B'),
    # one asset touching the same node with two commodities (own consumption booked where it delivers): both mapping rows of a variable enter the balance
    ('multicommodity_node_listed_twice', dict(T=2, factors=(1.0, 0.5, -0.25), node_names=('A', 'B', 'A')), None, 'B'),
    ('structured_two_external_nodes', dict(T=2, two_external=True), None, 'B'),
    ('split_structured', dict(T=4), '2h', 'A'),
    ('split_scaled_storage', dict(T=4, base='storage'), '2h', 'A'),
]
THOROUGH = QUICK + [
    ('two_node_T4', dict(T=4, wacc=True), None, 'B'),
    ('multicommodity_win', dict(T=4, take=(0, 6), win=(1, 4)), None, 'B'),
    ('plant_fuel_mr', dict(T=4, fuel=True, mr=2, md=2, ramp=True), None, 'B'),
    ('chp_T3', dict(T=3, fuel=True, heat=True, mr=2), None, 'B'),
    ('coarse_contract_win', dict(T=6, kind='contract', win=(1, 5)), None, 'B'),
    ('coarse_transport_T6', dict(T=6, kind='transport', eff=0.5, coarse='3h'), None, 'B'),
    ('coarse_storage', dict(T=4, kind='storage', eff=0.75), None, 'A'),
    ('coarse_contract_ec', dict(T=4, kind='contract', ec=True), None, 'B'),
    ('periodic_contract', dict(T=4, kind='contract', ec=True), None, 'B'),
    ('periodic_storage', dict(T=4, kind='storage', eff=0.75), None, 'A'),
    ('periodic_transport_dur', dict(T=8, kind='transport', eff=0.5, duration='4h'), None, 'B'),
    ('orderbook_full', dict(T=4, full_exec=True, orders=((0, 2, 2.0), (1, 4, -1.5), (-2, 1, 1.0), (5, 6, 1.0))), None, 'A'),
    ('scaled_storage', dict(T=3, base='storage'), None, 'A'),
    ('structured_2int', dict(T=2, two_internal=True), None, 'B'),
    ('structured_win', dict(T=3, inner_win=(0, 2), outer_win=(0, 3)), None, 'B'),
    ('split_two_node_T6', dict(T=6, freq='8h', unit='h', wacc=True), 'd', 'A'),
    ('split_unaligned', dict(T=5, freq='6h', unit='h'), 'd', 'A'),
    ('split_orderbook', dict(T=4, freq='12h'), 'd', 'A'),
    ('windows_gap_two_nodes', dict(T=5, wins=((0, 2), (1, 2), (3, 5), (4, 5)), two_nodes=True), None, 'B'),
    ('windows_gap_split', dict(T=4, wins=((0, 1), (0, 1), (3, 4), (3, 4))), '4h', 'A'),
]
SHAPE_OF = dict(multicommodity_three_nodes='multicommodity', multicommodity_node_listed_twice='multicommodity', structured_two_external_nodes='structured', first_node_idle_in_second_interval='early_node', first_node_outside_horizon='early_node', first_node_idle_after_window='early_node', split_structured='structured', split_scaled_storage='scaled', split_orderbook_last='orderbook', split_alternating_nodes='alternating', mixed_discount_rates='mixed_wacc', windows_gap='windows', windows_gap_two_nodes='windows', windows_gap_split='windows', two_node_2n_storage='two_node', plant_fuel='plant', chp_fuel='plant', coarse_contract='coarse',
                coarse_transport='coarse', periodic_transport='periodic', scaled_transport='scaled',
                split_two_node='two_node', window_transport='two_node', two_node_T4='two_node',
                multicommodity_win='multicommodity', plant_fuel_mr='plant', chp_T3='plant', coarse_contract_win='coarse',
                coarse_transport_T6='coarse', coarse_storage='coarse', coarse_contract_ec='coarse',
                periodic_contract='periodic', periodic_storage='periodic', periodic_transport_dur='periodic',
                orderbook_full='orderbook', scaled_storage='scaled', structured_2int='structured',
                structured_win='structured', split_two_node_T6='two_node', split_unaligned='two_node',
                split_orderbook='orderbook')

BOUNDS = dict(quick='catalogue shapes %s; T<=4; all feasible set-up paths; all numbers symbolic (Level B) unless marked A'
              % [c[0] for c in QUICK],
              thorough='catalogue shapes %s; T<=8' % [c[0] for c in THOROUGH])
OUTSIDE = ['longer horizons / larger portfolios', 'IEEE rounding']


def _norm_kw(kw):
    kw = dict(kw)
    if 'freq' in kw and kw['freq'] not in ('h',) and 'split' in kw:
        pass
    return kw


# the same shapes on other kinds of grid (irregular step lengths, other main units, zone-aware): gridv is applied by shapes.grid
GRIDV_SKIP = {'coarse', 'periodic'}     # their '2h' rasters presuppose an hourly grid (covered on DST grids in C13/C19)
GRIDV_QUICK = [('two_node', 'day_d_cet_dst'), ('multicommodity', 'month_d'), ('plant_fuel', 'quarter_min'), ('mixed_discount_rates', 'day_h_useast_fall')]


def grid_variants(lst, tier, shape_of, quick_pairs, skip=GRIDV_SKIP):
    from .. import shapes
    out = []
    for cid, kw, split, level in lst:
        shape = shape_of.get(cid, cid)
        if split is not None or shape in skip or 'freq' in kw or 'unit' in kw:
            continue
        for gv in shapes.GRID_VARIANTS:
            if (shape.startswith('plant') or shape == 'linked') and gv.startswith('month_d'):
                continue      # durations (minimum runtime ...) cannot be converted to steps on a calendar-month grid (pandas refuses 'MS')
            if tier == 'thorough' or (cid, gv) in quick_pairs:
                out.append(('%s@%s' % (cid, gv), dict(kw, gridv=gv), split, level))
    return out


def cases(tier, seed):
    lst = THOROUGH if tier == 'thorough' else QUICK
    lst = lst + grid_variants(lst, tier, SHAPE_OF, GRIDV_QUICK)
    out = []
    # two-stage stochastic problems: the reported dispatch (future steps: mean over the scenarios) balances as well
    # "every solution RETURNED": the vector handed back by optimize() is the solver's vector (also for the relaxed problem of make_soft_problem,
    # where flagged variables are fractional) -- C03's recorder machinery
    out.append(('returned_vector_is_the_solvers_soft_then_hard', dict(shape='-', kw={}, split='c03soft', level='A')))
    out.append(('slp_two_node', dict(shape='two_node', kw=dict(T=3), split='slp', level='A', slp=dict(boundary=1, S=2))))
    out.append(('slp_multicommodity', dict(shape='multicommodity', kw=dict(T=3, take=(0, 3)), split='slp', level='A', slp=dict(boundary=2, S=1))))
    out.append(('slp_plant_fuel', dict(shape='plant', kw=dict(T=3, fuel=True), split='slp', level='A', slp=dict(boundary=1, S=1))))
    for cid, kw, split, level in lst:
        shape = SHAPE_OF.get(cid.split('@')[0], cid.split('@')[0])
        kw = dict(kw)
        out.append((cid, dict(shape=shape, kw=kw, split=split, level=level)))
    # sequences of calls on the same objects (decided with C10's history machinery: the final problem equals that of fresh objects)
    # -- the portfolio object was wrapped in a structured asset (set up once) before it is set up on its own
    out.append(('history_standalone_after_being_wrapped_in_a_structured_asset', common.delegated('c10', pf='dicts', final='h', histories=[['wrapped']])))
    return out


def run_case(case_id, tier, seed, shape, kw, split, level, slp=None):
    if split == 'c03soft':
        from . import c03
        res = c03.run_case(case_id, tier, seed, **C03SOFT)
        res['prop'] = PROP
        return res
    rec = lpsem.Rec(PROP, case_id)
    if split == 'slp':
        from . import c04
        from .. import lift
        res = lift.explore_build(lambda D: c04.slp_scenario(D, shape, kw, slp['boundary'], slp['S']), level=level)
    else:
        res = scen.explore(shape, kw, split=split, level=level)
    rec.paths = len(res)
    validated = False
    for pi, (path, D) in enumerate(res):
        if path.exc is not None:
            if common.is_rejection(path.exc):
                rec.rejected_paths += 1
                continue
            common.crash_candidate(rec, 'p%d/crash' % pi, path, D)
            continue
        sc = path.result
        assume = list(D.pre) + path.pc + sym.atom_constraints() + scen.feasible(sc)
        if rec.vacuity('p%d' % pi, assume) is None:
            continue
        disp = sc.out['dispatch']
        cols = common.node_columns(sc.sh.portf)
        Tn = sc.sh.tg.T
        first = True
        for n, cl in sorted(cols.items()):
            missing = [c for c in cl if c not in disp.columns]
            if missing:
                rec.obligations.append(dict(name='p%d/columns/%s' % (pi, n), verdict='sat', secs=0, form='Q2'))
                rec.candidates.append(dict(name='p%d/columns/%s' % (pi, n), env={}, info=dict(missing=missing), form='Q2'))
                continue
            for t in range(Tn):
                tot = common.z3sum([disp[c].values[t] for c in cl])
                if first:
                    rec.twin('p%d/balance/%s/%d' % (pi, n, t), assume, tot == 1)
                    first = False
                rec.prove('p%d/balance/%s/%d' % (pi, n, t), assume, tot == 0, form='Q1', info=dict(node=n, t=t, cols=cl))
        if not validated:
            validated = scen.validation_request(rec, sc, D, path, seed)
    return rec.result()


C03SOFT = dict(kind='soft', m=2, n=3, mapping='bool_after_unmapped', ctypes=['UN'])


def observe(case, kwargs, env, rq):
    if kwargs.get('split') == 'c03soft':
        from . import c03
        return c03.observe(case, C03SOFT, env, rq)
    if kwargs.get('split') == 'slp':
        from . import c04
        return c04.observe(case, kwargs, env, rq)
    return scen.observe(case, kwargs, env, rq)


def judge(case, kwargs, cand, ans):
    """is the solver's counterexample a real violation on the unshimmed code?"""
    if kwargs.get('split') == 'c03soft':
        from . import c03
        return c03.judge(case, C03SOFT, cand, ans)
    if cand.get('form') == 'crash' or 'crash' in cand.get('info', {}):
        if 'error' in ans:
            return True, 'set-up/output code raises on an in-domain input: ' + ans['error'][:200]
        return False, 'no exception on the unshimmed code'
    if 'error' in ans:
        return None, ans['error']
    o = ans['obs']
    probs = o['problems'] if 'problems' in o else [o['problem']]
    n = sum(len(p['c']) for p in probs)
    x = [cand['env'].get('x%d' % i, 0.0) for i in range(n)]
    off = 0
    for p in probs:
        k = len(p['c'])
        r = scen.feasibility_residual(p, x[off:off + k])
        if r > 1e-6:
            return False, 'counterexample x is not feasible for the unshimmed problem (residual %.3g)' % r
        off += k
    info = cand['info']
    if 'missing' in info:
        disp = o['output']['dispatch']
        miss = [c for c in info['missing'] if c not in disp]
        return (True, 'dispatch column(s) missing: %s' % miss) if miss else (False, 'columns present')
    disp = o['output']['dispatch']
    tot = sum((disp[c][info['t']] or 0.0) for c in info['cols'])
    scale = max([1.0] + [abs(disp[c][info['t']] or 0.0) for c in info['cols']])
    if abs(tot) > 1e-6 * scale:
        return True, 'node %s step %d: reported dispatches sum to %.6g' % (info['node'], info['t'], tot)
    return False, 'balance holds on the unshimmed code (sum %.3g)' % tot
