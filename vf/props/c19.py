"""C19 Time grid and interval data: every step, and only the right interval, counts.

Symbolic time: a Timegrid state is constructed directly ("drive the unit, construct the state") with strictly increasing symbolic
time points tp_0 < ... < tp_{T-1} < end and symbolic step lengths; the real code then runs on it with pandas' Timestamp/to_datetime
passing symbolic instants through (vf/props/c19.py: PD proxy, injected into eaopack.basic_classes for this check only).
  (i)   restricted grid, same frequency, symbolic window [rs, re): over all placements (paths) the result is exactly the points with
        rs <= tp_i < re, with their original indices, step lengths, cumulative times and discount factors      (Q1 per path)
  (ii)  values_to_grid with up to 2 symbolic intervals and symbolic values, explicit and implicit 'end' and the single-start form:
        each point gets the value of the interval containing it, NaN iff outside all, ValueError iff some grid point lies in two
        intervals                                                                                               (Q1 per path)
  (iii) coarse restricted grid (concrete calendar, symbolic step lengths and discount factors): the minor index lists partition the
        covered fine steps, dt_coarse = sum of dt_fine, time point / index / discount factor are those of the first minor step
  (iv)  already-gridded price arrays pass through prices_to_grid unchanged (symbolic values)                     (Q2)
Concrete only (pandas builds the points; enumerated, not decided by the solver): for 15min/h/d/MS grids, units min/h/d, naive/CET/
US-Eastern incl. both 2021 DST switches: points strictly increasing, first = start, last < end, dt = elapsed time between
consecutive points recomputed from UTC instants, Dt cumulative.
"""
import datetime as dt

import numpy as np
import pandas as pd
import z3

from .. import scen, common, sym, lpsem, lift, shapes, obs, refmap
from ..sym import Sym, SymBool, lift as zl

PROP = 'C19'
EXTRA_SHIMS = ['basic_classes.pd = PD proxy (C19 symbolic-time cases only): Timestamp(x)/to_datetime(x) return a symbolic instant unchanged; Timestamp.max = 10^9']
BOUNDS = dict(quick='symbolic time: T=3 points, <=2 intervals (explicit end: all 256 placements as paths), window placements of the restricted grid as paths; coarse grids T<=6 (2h/3h, aligned, unaligned, straddling); concrete grids: 14 (freq, unit, zone, DST) combinations',
              thorough='T=4 points for the restricted grid; more concrete grids')
OUTSIDE = ['pandas\' construction of grid points (date_range, DST rules) is executed concretely per grid', 'prices_to_grid on not-yet-gridded data (reindex/interpolate are Cython)',
           'more than 2 intervals / 4 grid points with symbolic time']
ASSUMPTIONS = ['representation invariant of the constructed grid state: strictly increasing points before the end (what the constructor establishes, checked concretely in the last group)',
               'the last interval of the implicit-end form extends by twice the last spacing (code comment: "generously extend validity")']


class SymTime(Sym):
    __slots__ = ()
    tzinfo = None

    def tz_localize(self, tz):
        return self

    def tz_convert(self, tz):
        return self


class TList(list):
    tz = None

    def tz_localize(self, tz):
        return self


class PD:
    def __getattr__(self, k):
        return getattr(pd, k)
    DatetimeIndex = pd.DatetimeIndex
    Timedelta = pd.Timedelta
    DataFrame = pd.DataFrame
    api = pd.api

    def to_datetime(self, x, *a, **k):
        if isinstance(x, Sym):
            return x
        if isinstance(x, (list, np.ndarray)) and len(x) and isinstance(x[0], Sym):
            return TList(x)
        return pd.to_datetime(x, *a, **k)

    def date_range(self, *a, **k):
        return pd.date_range(*a, **k)

    class Timestamp:
        max = SymTime(z3.RealVal(10 ** 9))

        def __new__(cls, x, tz=None, **k):
            if isinstance(x, Sym):
                return x
            return pd.Timestamp(x, tz=tz, **k)


def st(name):
    return SymTime(z3.Real(name))


def cases(tier, seed):
    out = [('restricted_T3', dict(kind='restricted', T=3)), ('values_explicit_end', dict(kind='values', T=3, form='explicit')),
           ('values_implicit_end', dict(kind='values', T=3, form='implicit')), ('values_single_start', dict(kind='values', T=3, form='single')),
           ('values_one_interval_scalar', dict(kind='values', T=3, form='scalar')),
           ('values_implicit_end_three_starts', dict(kind='values', T=2, form='implicit3')), ('gridded_prices_pass_through', dict(kind='prices'))]
    if tier == 'thorough':
        out.append(('restricted_T4', dict(kind='restricted', T=4)))
    for cid, kw in COARSE:
        out.append(('coarse_' + cid, dict(kind='coarse', **kw)))
    out.append(('concrete_grids', dict(kind='concrete')))
    # asset level: a parameter given as interval data / as the name of a data column / with dates in another representation gives the same
    # problem as the per-step values of the containing interval (computed by the harness)
    for cid in FORMS:
        out.append(('forms_' + cid, dict(kind='forms', which=cid)))
    # sequences of calls on the same objects (decided with C10's history machinery: the final problem equals that of fresh objects)
    # -- a grid with the same start, end and frequency but another main time unit, after a set-up on the first
    out.append(('history_same_instants_other_main_time_unit_after_an_earlier_setup', common.delegated('c10', pf='dicts', final='dunit', histories=[['h']], isolate=True)))
    return out


FORMS = ['contract_caps_dict_open_end', 'contract_caps_dict_with_end', 'contract_caps_scalar_as_one_interval', 'contract_extra_costs_dict',
         'multicommodity_caps_dict', 'plant_costs_dict', 'plant_caps_fuel_dict', 'chp_factor_share_dict',
         'dates_timestamp_vs_datetime', 'dates_numpy_datetime64', 'dates_zone_aware_vs_naive_on_cet_grid', 'take_arrays_vs_lists', 'window_timestamp_vs_datetime',
         # an optional argument omitted vs given explicitly with its documented default
         'defaults_storage', 'defaults_contract', 'defaults_transport', 'defaults_plant', 'defaults_multicommodity', 'defaults_plant_ramp_freq',
         # the forms of a rate-type parameter of an asset with its own coarser frequency (the coarse step's length scales the volume limit)
         'coarse_contract_caps_column_vs_scalar', 'coarse_contract_caps_dict_vs_scalar',
         'nodes_single_vs_list', 'window_string_dates', 'scalars_int_vs_float']      # (plants reject an own frequency)


def build_forms(D, which):
    """returns (problem with the parameter in the form under test, problem with plain per-step data columns / plain dates)"""
    eao = lift.import_eao()
    T = 4
    tz = 'CET' if which == 'dates_zone_aware_vs_naive_on_cet_grid' else None
    tg = shapes.grid(T, 'h', 'h', tz) if which != 'defaults_plant_ramp_freq' else shapes.grid(T, '30min', 'h')
    tp = [pd.Timestamp(t) for t in tg.timepoints]
    naive = [t.tz_localize(None) for t in tp]
    end_ = pd.Timestamp(shapes._grid_end(tg)).tz_localize(None)
    dtm = lambda t: pd.Timestamp(t).to_pydatetime()
    nA, nB, nG = shapes.nodes('A', 'B', 'G')
    prices = {'p': D.arr('p', T), 'q': D.arr('q', T)}
    v = lambda n, **k: D(n, **k)
    col = lambda name, vals: prices.__setitem__(name, np.array(vals, dtype=object if D.symbolic else float)) or name

    def piece(n0, n1, **k):
        a, b = v(n0, **k), v(n1, **k)
        return a, b, [a, a, b, b]
    if which.startswith('contract_caps') or which == 'contract_extra_costs_dict':
        lo0, lo1, lo_steps = piece('lo0', 'lo1', hi=0)
        hi0, hi1, hi_steps = piece('hi0', 'hi1', lo=0)
        e0, e1, e_steps = piece('ec0', 'ec1', lo=0)
        if which == 'contract_caps_dict_open_end':
            mk = lambda f: eao.assets.SimpleContract(name='a', nodes=nA, price='p', extra_costs=e0,
                                                     min_cap={'start': [dtm(naive[0]), dtm(naive[2])], 'values': [lo0, lo1]} if f else col('lo', lo_steps),
                                                     max_cap={'start': [dtm(naive[0]), dtm(naive[2])], 'values': [hi0, hi1]} if f else col('hi', hi_steps))
        elif which == 'contract_caps_dict_with_end':
            mk = lambda f: eao.assets.SimpleContract(name='a', nodes=nA, price='p', extra_costs=e0,
                                                     min_cap={'start': [dtm(naive[2]), dtm(naive[0])], 'end': [dtm(end_), dtm(naive[2])], 'values': [lo1, lo0]} if f else col('lo', lo_steps),
                                                     max_cap={'start': [dtm(naive[0]), dtm(naive[2])], 'end': [dtm(naive[2]), dtm(end_ + pd.Timedelta(hours=5))], 'values': [hi0, hi1]} if f else col('hi', hi_steps))
        elif which == 'contract_caps_scalar_as_one_interval':
            mk = lambda f: eao.assets.SimpleContract(name='a', nodes=nA, price='p', extra_costs=e0,
                                                     min_cap={'start': dtm(naive[0]), 'end': dtm(end_), 'values': lo0} if f else lo0,
                                                     max_cap={'start': [dtm(naive[0])], 'values': [hi0]} if f else hi0)
        else:
            mk = lambda f: eao.assets.Contract(name='a', nodes=nA, price='p', min_cap=lo0, max_cap=hi0,
                                               extra_costs={'start': [dtm(naive[0]), dtm(naive[2])], 'values': [e0, e1]} if f else col('ec', e_steps))
    elif which == 'transport_caps_dict':
        a0, a1, a_steps = piece('tmin0', 'tmin1', lo=0)
        b0, b1, b_steps = piece('tmax0', 'tmax1', lo=0)
        for x_, y_ in ((a0, b0), (a1, b1)):
            D.assume(x_ <= y_)
        # the other form of a transport capacity is a constant: compare the two halves of the horizon with constant-capacity transports on windows
        def mk(f):
            if f:
                return eao.assets.Transport(name='a', nodes=[nA, nB], efficiency=0.5, costs_const=v('cc', lo=0),
                                            min_cap={'start': [dtm(naive[0]), dtm(naive[2])], 'values': [a0, a1]}, max_cap={'start': [dtm(naive[0]), dtm(naive[2])], 'values': [b0, b1]})
            return eao.assets.Transport(name='a', nodes=[nA, nB], efficiency=0.5, costs_const=v('cc', lo=0),
                                        min_cap={'start': [dtm(naive[0]), dtm(naive[2])], 'end': [dtm(naive[2]), dtm(end_)], 'values': [a0, a1]},
                                        max_cap={'start': [dtm(naive[2]), dtm(naive[0])], 'end': [dtm(end_), dtm(naive[2])], 'values': [b1, b0]})
    elif which == 'multicommodity_caps_dict':
        lo0, lo1, lo_steps = piece('lo0', 'lo1', hi=0)
        hi0, hi1, hi_steps = piece('hi0', 'hi1', lo=0)
        mk = lambda f: eao.assets.MultiCommodityContract(name='a', nodes=[nA, nB], price='p', factors_commodities=[1.0, 0.5], extra_costs=v('ec', lo=0),
                                                         min_cap={'start': [dtm(naive[0]), dtm(naive[2])], 'values': [lo0, lo1]} if f else col('lo', lo_steps),
                                                         max_cap={'start': [dtm(naive[0]), dtm(naive[2])], 'values': [hi0, hi1]} if f else col('hi', hi_steps))
    elif which in ('plant_costs_dict', 'plant_caps_fuel_dict', 'chp_factor_share_dict'):
        r0, r1, r_steps = piece('rc0', 'rc1', lo=0)
        s0, s1, s_steps = piece('sc0', 'sc1', lo=0)
        c0, c1, c_steps = piece('cio0', 'cio1', lo=0)
        f0, f1, f_steps = piece('sf0', 'sf1', lo=0)
        d2 = lambda a, b: {'start': [dtm(naive[0]), dtm(naive[2])], 'values': [a, b]}
        if which == 'plant_costs_dict':
            mk = lambda f: eao.assets.Plant(name='a', nodes=[nA, nG], price='p', min_cap=1., max_cap=3., min_runtime=2, fuel_efficiency=0.5,
                                            running_costs=d2(r0, r1) if f else col('rc', r_steps), start_costs=d2(s0, s1) if f else col('sc', s_steps),
                                            consumption_if_on=d2(c0, c1) if f else col('cio', c_steps), start_fuel=d2(f0, f1) if f else col('sf', f_steps))
        elif which == 'plant_caps_fuel_dict':
            mn0, mn1, mn_steps = piece('mn0', 'mn1', lo_strict=0)
            mx0, mx1, mx_steps = piece('mx0', 'mx1', lo=0)
            D.assume(mn0 <= mx0); D.assume(mn1 <= mx1)
            mk = lambda f: eao.assets.Plant(name='a', nodes=[nA, nG], price='p', start_costs=s0, running_costs=r0,
                                            min_cap=d2(mn0, mn1) if f else col('mn', mn_steps), max_cap=d2(mx0, mx1) if f else col('mx', mx_steps),
                                            fuel_efficiency=d2(0.5, 0.25) if f else col('fe', [0.5, 0.5, 0.25, 0.25]))
        else:
            mk = lambda f: eao.assets.CHPAsset(name='a', nodes=[nA, nB, nG], price='p', min_cap=1., max_cap=3., start_costs=s0, running_costs=r0, fuel_efficiency=0.5,
                                               conversion_factor_power_heat=d2(0.25, 0.5) if f else col('cf', [0.25, 0.25, 0.5, 0.5]),
                                               max_share_heat=d2(2.0, 1.0) if f else col('msh', [2.0, 2.0, 1.0, 1.0]))
    elif which in ('dates_timestamp_vs_datetime', 'dates_numpy_datetime64', 'dates_zone_aware_vs_naive_on_cet_grid'):
        lo0, lo1 = v('lo0', hi=0), v('lo1', hi=0)
        hi0, hi1 = v('hi0', lo=0), v('hi1', lo=0)
        if which == 'dates_timestamp_vs_datetime':
            alt = lambda t: pd.Timestamp(t)
        elif which == 'dates_numpy_datetime64':
            alt = lambda t: np.datetime64(pd.Timestamp(t))
        else:
            alt = lambda t: pd.Timestamp(t).tz_localize('CET')          # zone-aware dates for the same wall clock
        def mk(f):
            cv = alt if f else dtm
            starts = [cv(naive[0]), cv(naive[2])]
            if f and which == 'dates_numpy_datetime64':
                starts = np.array(starts)
            return eao.assets.Contract(name='a', nodes=nA, price='p', extra_costs=v('ec', lo=0),
                                       min_cap={'start': starts, 'values': [lo0, lo1]},
                                       max_cap={'start': [cv(naive[0]), cv(naive[1])], 'end': [cv(naive[1]), cv(end_)], 'values': [hi0, hi1]},
                                       max_take={'start': [cv(naive[1])], 'end': [cv(naive[3])], 'values': [v('take', lo=0)]})
    elif which == 'take_arrays_vs_lists':
        t0_, t1_ = v('take0', lo=0), v('take1', hi=0)
        mk = lambda f: eao.assets.Contract(name='a', nodes=nA, price='p', min_cap=v('lo', hi=0), max_cap=v('hi', lo=0),
                                           max_take={'start': np.array([dtm(naive[0])]) if f else [dtm(naive[0])], 'end': np.array([dtm(naive[3])]) if f else [dtm(naive[3])],
                                                     'values': np.array([t0_], dtype=object) if f else [t0_]},
                                           min_take={'start': dtm(naive[1]) if f else [dtm(naive[1])], 'end': dtm(end_) if f else [dtm(end_)], 'values': t1_ if f else [t1_]})
    elif which == 'window_timestamp_vs_datetime':
        mk = lambda f: eao.assets.Storage('a', nodes=nA, size=v('size', lo=0), cap_in=v('ci', lo=0), cap_out=v('co', lo=0), eff_in=0.75,
                                          start=pd.Timestamp(naive[1]) if f else dtm(naive[1]), end=np.datetime64(naive[3]) if f else dtm(naive[3]))
    elif which == 'defaults_storage':
        base_ = dict(name='a', nodes=nA, size=v('size', lo=0), cap_in=v('ci', lo=0), cap_out=v('co', lo=0))
        mk = lambda f: eao.assets.Storage(**dict(base_, **(dict(start=None, end=None, wacc=0., start_level=0., end_level=0., cost_out=0., cost_in=0., cost_store=0., inflow=0.,
                                                                eff_in=1., no_simult_in_out=False, max_store_duration=None, price=None, freq=None, profile=None,
                                                                periodicity=None, periodicity_duration=None, block_size=None) if f else {})))
    elif which == 'defaults_contract':
        base_ = dict(name='a', nodes=nA, price='p', min_cap=v('lo', hi=0), max_cap=v('hi', lo=0))
        mk = lambda f: eao.assets.Contract(**dict(base_, **(dict(start=None, end=None, wacc=0., extra_costs=0., min_take=None, max_take=None, freq=None, profile=None,
                                                                 periodicity=None, periodicity_duration=None) if f else {})))
    elif which == 'defaults_transport':
        lo_, hi_ = v('lo', lo=0), v('hi', lo=0)
        D.assume(lo_ <= hi_)
        base_ = dict(name='a', nodes=[nA, nB], min_cap=lo_, max_cap=hi_)
        mk = lambda f: eao.assets.Transport(**dict(base_, **(dict(start=None, end=None, wacc=0., costs_const=0., costs_time_series=None, efficiency=1., freq=None, profile=None,
                                                                  periodicity=None, periodicity_duration=None) if f else {})))
    elif which == 'defaults_plant':
        mn_, mx_ = v('mn', lo_strict=0), v('mx', lo=0)
        D.assume(mn_ <= mx_)
        base_ = dict(name='a', nodes=[nA, nG], price='p', min_cap=mn_, max_cap=mx_, start_costs=v('sc', lo=0))
        mk = lambda f: eao.assets.Plant(**dict(base_, **(dict(start=None, end=None, wacc=0., extra_costs=0., min_take=None, max_take=None, freq=None, profile=None,
                                                              periodicity=None, periodicity_duration=None, ramp=None, running_costs=0., min_runtime=0, time_already_running=0,
                                                              min_downtime=0, time_already_off=0, last_dispatch=0, start_ramp_lower_bounds=None, start_ramp_upper_bounds=None,
                                                              shutdown_ramp_lower_bounds=None, shutdown_ramp_upper_bounds=None, ramp_freq=None, start_fuel=0., fuel_efficiency=1.,
                                                              consumption_if_on=0.) if f else {})))
    elif which == 'defaults_plant_ramp_freq':
        # ramp profiles are given per main time unit unless ramp_freq says otherwise: omitted = main time unit (here 'h' on a 30-minute grid)
        base_ = dict(name='a', nodes=[nA], price='p', min_cap=1., max_cap=3., start_costs=v('sc', lo=0), ramp=v('ramp', lo_strict=0),
                     start_ramp_lower_bounds=[1.0, 2.0], start_ramp_upper_bounds=[1.5, 2.5], shutdown_ramp_lower_bounds=[1.0], shutdown_ramp_upper_bounds=[2.0])
        mk = lambda f: eao.assets.Plant(**dict(base_, **(dict(ramp_freq='h') if f else {})))
    elif which in ('coarse_contract_caps_column_vs_scalar', 'coarse_contract_caps_dict_vs_scalar'):
        lo_, hi_ = v('lo', hi=0), v('hi', lo=0)
        if which.endswith('column_vs_scalar'):
            mk = lambda f: eao.assets.SimpleContract(name='a', nodes=nA, price='p', freq='2h', extra_costs=v('ec', lo=0),
                                                     min_cap=col('lo', [lo_] * T) if f else lo_, max_cap=col('hi', [hi_] * T) if f else hi_)
        else:
            mk = lambda f: eao.assets.SimpleContract(name='a', nodes=nA, price='p', freq='2h', extra_costs=v('ec', lo=0),
                                                     min_cap={'start': [dtm(naive[0])], 'values': [lo_]} if f else lo_,
                                                     max_cap={'start': [dtm(naive[0])], 'end': [dtm(end_)], 'values': [hi_]} if f else hi_)
    elif which == 'coarse_plant_costs_column_vs_scalar':
        rc_, cio_ = v('rc', lo=0), v('cio', lo=0)
        mk = lambda f: eao.assets.Plant(name='a', nodes=[nA, nG], price='p', freq='2h', min_cap=0., max_cap=3., fuel_efficiency=0.5,
                                        running_costs=col('rc', [rc_] * T) if f else rc_, consumption_if_on=col('cio', [cio_] * T) if f else cio_)
    elif which == 'nodes_single_vs_list':
        mk = lambda f: eao.assets.Storage('a', nodes=[nA] if f else nA, size=v('size', lo=0), cap_in=v('ci', lo=0), cap_out=v('co', lo=0), eff_in=0.75)
    elif which == 'window_string_dates':
        mk = lambda f: eao.assets.SimpleContract(name='a', nodes=nA, price='p', min_cap=v('lo', hi=0), max_cap=v('hi', lo=0),
                                                 start=str(naive[1]) if f else dtm(naive[1]), end=str(naive[3]) if f else dtm(naive[3]))
    elif which == 'scalars_int_vs_float':
        mk = lambda f: eao.assets.Contract(name='a', nodes=nA, price='p', min_cap=-2 if f else -2.0, max_cap=3 if f else 3.0, extra_costs=1 if f else 1.0,
                                           max_take={'start': [dtm(naive[0])], 'end': [dtm(naive[3])], 'values': [4 if f else 4.0]}, wacc=0 if f else 0.0)
    elif which in ('chp_heat_start_profile_only', 'chp_heat_shutdown_profile_only'):
        # heat bounds during the start / the shutdown ramp are two separate optional arguments: one omitted = given with the bounds that hold anyway
        # (0 <= heat <= max_cap / conversion factor), the other one in force (owned by C06)
        nH = shapes.nodes('H')[0]
        base_ = dict(name='a', nodes=[nA, nH], price='p', min_cap=1., max_cap=3., conversion_factor_power_heat=0.5, max_share_heat=1.0, start_costs=v('sc', lo=0),
                     start_ramp_lower_bounds=[1.0, 2.0], start_ramp_upper_bounds=[1.5, 2.5], shutdown_ramp_lower_bounds=[1.0], shutdown_ramp_upper_bounds=[2.0],
                     time_already_off=1)
        sh = dict(start_ramp_lower_bounds_heat=[0.25, 0.5], start_ramp_upper_bounds_heat=[0.5, 1.0])
        sd = dict(shutdown_ramp_lower_bounds_heat=[0.25], shutdown_ramp_upper_bounds_heat=[0.75])
        triv_sh = dict(start_ramp_lower_bounds_heat=[0., 0.], start_ramp_upper_bounds_heat=[6., 6.])
        triv_sd = dict(shutdown_ramp_lower_bounds_heat=[0.], shutdown_ramp_upper_bounds_heat=[6.])
        if which == 'chp_heat_start_profile_only':
            mk = lambda f: eao.assets.CHPAsset(**dict(base_, **sh, **({} if f else triv_sd)))
        else:
            mk = lambda f: eao.assets.CHPAsset(**dict(base_, **sd, **({} if f else triv_sh)))
    elif which == 'defaults_multicommodity':
        base_ = dict(name='a', nodes=[nA, nB], price='p', min_cap=v('lo', hi=0), max_cap=v('hi', lo=0), factors_commodities=[1.0, 0.5])
        mk = lambda f: eao.assets.MultiCommodityContract(**dict(base_, **(dict(start=None, end=None, wacc=0., extra_costs=0., min_take=None, max_take=None, freq=None, profile=None,
                                                                               periodicity=None, periodicity_duration=None) if f else {})))
    else:
        raise KeyError(which)
    a = mk(True).setup_optim_problem(prices, tg)
    b = mk(False).setup_optim_problem(prices, tg)
    return a, b


def run_forms(rec, seed, which):
    from .c10 import compare
    res = lift.explore_build(lambda D: build_forms(D, which), level='A')
    rec.paths = len(res)
    validated = False
    for pi, (path, D) in enumerate(res):
        P = 'p%d' % pi
        if path.exc is not None:
            if common.is_rejection(path.exc):
                rec.rejected_paths += 1
                continue
            common.crash_candidate(rec, P + '/crash', path, D, info=dict(kind='crash'))
            continue
        a, b = path.result
        base = list(D.pre) + path.pc + sym.atom_constraints()
        if rec.vacuity(P, base) is None:
            continue
        rec.twin(P, base, z3.BoolVal(False))
        goals = compare(rec, P, base, a, b)
        nm = P + '/same_problem_for_both_forms'
        if not goals:
            rec.obligations.append(dict(name=nm, verdict='unsat', secs=0, form='Q2'))
            rec.distinct.add(nm)
        else:
            rec.prove_each(nm, base, [(lab, g, dict(kind='forms', label=lab)) for lab, g in goals], form='Q2')
        if not validated:
            from .. import obs
            env = common.generic_point(base, D.names, seed)
            if env is not None:
                for n_ in D.names:
                    env.setdefault(n_, 0.0)
                rec.validations.append(dict(env=env, lifted=obs.to_jsonable(dict(form=obs.problem_obs(a)), env)))
                validated = True
    return rec.result()


COARSE = [('aligned_2h_T4', dict(T=4, coarse='2h', win=None)), ('unaligned_tail_T5', dict(T=5, coarse='2h', win=None)),
          ('window_inside_T6', dict(T=6, coarse='2h', win=(1, 5))), ('straddles_start', dict(T=4, coarse='2h', win=(-1, 5))),
          ('straddles_end_3h', dict(T=5, coarse='3h', win=(1, 9))), ('far_before', dict(T=4, coarse='2h', win=(-5, 3))),
          ('halfhour_to_hour', dict(T=5, coarse='h', win=None, freq='30min')),
          # anchored frequencies: the first interval (before the first anchor: Sunday / first of the month) is shorter, not lost
          ('weekly_on_daily_grid_start_monday', dict(T=10, coarse='W', win=None, freq='d')),
          ('weekly_window_mid_week', dict(T=14, coarse='W', win=(2, 12), freq='d')),
          ('ends_inside_unaligned_T6', dict(T=6, coarse='2h', win=(1, 4))), ('ends_inside_unaligned_3h_T8', dict(T=8, coarse='3h', win=(2, 6)))]


# ------------------------------------------------------------------------------------------------ symbolic grid state
def symbolic_grid(T, with_discount=True):
    eao = lift.import_eao()
    bc = eao.basic_classes
    tg = object.__new__(bc.Timegrid)
    tg.freq = 'h'; tg.main_time_unit = 'h'; tg.tz = None
    tg.timepoints = np.array([st('tp%d' % i) for i in range(T)], dtype=object)
    tg.T = T
    tg.I = np.arange(T)
    tg.dt = sym.symarr('dt', T)
    tg.Dt = np.cumsum(tg.dt)
    tg.start = tg.timepoints[0]
    tg.end = st('tend')
    if with_discount:
        tg.discount_factors = sym.symarr('df', T)
    pre = [tg.timepoints[i].e < tg.timepoints[i + 1].e for i in range(T - 1)] + [tg.timepoints[-1].e < tg.end.e, tg.end.e < 10 ** 8]
    return tg, pre


class with_pd_proxy:
    def __enter__(self):
        eao = lift.import_eao()
        self.bc = eao.basic_classes
        self.old = self.bc.pd
        self.bc.pd = PD()
        return self

    def __exit__(self, *a):
        self.bc.pd = self.old


def explore_with(pre, f):
    """exploration with explicit preconditions (the grid invariant)"""
    def build(D):
        for c in pre:
            D.assume(c)
        return f()
    return lift.explore_build(build, level='B')


def run_case(case_id, tier, seed, kind, **kw):
    rec = lpsem.Rec(PROP, case_id)
    if kind == 'restricted':
        return run_restricted(rec, seed, **kw)
    if kind == 'values':
        return run_values(rec, seed, **kw)
    if kind == 'coarse':
        return run_coarse(rec, seed, **kw)
    if kind == 'prices':
        return run_prices(rec, seed)
    if kind == 'forms':
        return run_forms(rec, seed, **kw)
    if kind == 'concrete':
        rec.pchecks.append(dict(extra=dict(tier=tier)))
        rec.twins_ok += 1; rec.vacuity_ok += 1
        return rec.result()
    raise KeyError(kind)


def run_restricted(rec, seed, T):
    eao = lift.import_eao()
    tg, pre = symbolic_grid(T)
    rs, re_ = st('rs'), st('re')
    with with_pd_proxy():
        res = explore_with(pre, lambda: eao.basic_classes.Timegrid(rs, re_, freq='h', main_time_unit='h', ref_timegrid=tg))
    rec.paths = len(res)
    for pi, (path, D) in enumerate(res):
        P = 'p%d' % pi
        if path.exc is not None:
            common.crash_candidate(rec, P + '/crash', path, D, info=dict(kind='crash'))
            continue
        r = path.result
        base = list(D.pre) + path.pc
        if rec.vacuity(P, base) is None:
            continue
        got = [int(i) for i in r.I]
        inside = [z3.And(rs.e <= tg.timepoints[i].e, tg.timepoints[i].e < re_.e) for i in range(T)]
        spec = z3.And(*[inside[i] if i in got else z3.Not(inside[i]) for i in range(T)])
        rec.twin(P + '/window', base, z3.BoolVal(False))
        rec.prove(P + '/exactly_the_points_in_window', base, spec, form='Q1', info=dict(kind='restricted', got=got))
        ok = (r.T == len(got) and len(r.timepoints) == len(got) and all(r.timepoints[k] is tg.timepoints[i] for k, i in enumerate(got))
              and all(r.dt[k] is tg.dt[i] for k, i in enumerate(got)) and all(r.Dt[k] is tg.Dt[i] for k, i in enumerate(got))
              and all(r.discount_factors[k] is tg.discount_factors[i] for k, i in enumerate(got)) and got == sorted(got))
        nm = P + '/index_consistent_subset'
        rec.obligations.append(dict(name=nm, verdict='unsat' if ok else 'sat', secs=0, form='Q2'))
        rec.distinct.add(nm)
        if not ok:
            rec.candidates.append(dict(name=nm, env=sym.model_env(rec.vacuity(P, base)) if False else {}, info=dict(kind='subset', got=got), form='struct'))
    return rec.result()


def run_values(rec, seed, T, form):
    tg, pre = symbolic_grid(T, with_discount=False)
    if form == 'explicit':
        s = [st('s0'), st('s1')]; e = [st('e0'), st('e1')]; v = [Sym.var('v0'), Sym.var('v1')]
        mk = lambda: {'start': list(s), 'end': list(e), 'values': list(v)}
        ends = [x.e for x in e]
    elif form == 'implicit':
        s = [st('s0'), st('s1')]; v = [Sym.var('v0'), Sym.var('v1')]
        mk = lambda: {'start': list(s), 'values': list(v)}
        ends = [s[1].e, s[1].e + 2 * (s[1].e - s[0].e)]
    elif form == 'implicit3':
        # three starts, unevenly spaced: the last interval is open-ended "generously" by twice the LAST gap (as implemented and documented in the code)
        s = [st('s0'), st('s1'), st('s2')]; v = [Sym.var('v0'), Sym.var('v1'), Sym.var('v2')]
        mk = lambda: {'start': list(s), 'values': list(v)}
        ends = [s[1].e, s[2].e, s[2].e + 2 * (s[2].e - s[1].e)]
    elif form == 'single':
        s = [st('s0')]; v = [Sym.var('v0')]
        mk = lambda: {'start': list(s), 'values': list(v)}
        ends = [z3.RealVal(10 ** 9)]
    else:  # scalars instead of lists
        s = [st('s0')]; e = [st('e0')]; v = [Sym.var('v0')]
        mk = lambda: {'start': s[0], 'end': e[0], 'values': v[0]}
        ends = [e[0].e]
    K = len(s)
    with with_pd_proxy():
        res = explore_with(pre, lambda: tg.values_to_grid(mk()))
    rec.paths = len(res)
    tp = [tg.timepoints[i].e for i in range(T)]
    ins = [[z3.And(s[k].e <= tp[i], tp[i] < ends[k]) for k in range(K)] for i in range(T)]
    amb = z3.Or(*[z3.And(ins[i][a], ins[i][b]) for i in range(T) for a in range(K) for b in range(a + 1, K)]) if K > 1 else z3.BoolVal(False)
    n_raise = 0
    for pi, (path, D) in enumerate(res):
        P = 'p%d' % pi
        base = list(D.pre) + path.pc
        if rec.vacuity(P, base) is None:
            continue
        if path.exc is not None:
            if isinstance(path.exc, ValueError) and 'Overlapping' in str(path.exc):
                n_raise += 1
                rec.prove(P + '/raises_only_if_a_point_lies_in_two_intervals', base, amb, form='Q1', info=dict(kind='raise'))
            else:
                common.crash_candidate(rec, P + '/crash', path, D, info=dict(kind='crash'))
            continue
        r = path.result
        goals = [z3.Not(amb)]
        for i in range(T):
            got = r[i]
            if isinstance(got, Sym):
                goals.append(z3.Or(*[z3.And(ins[i][k], got.e == v[k].e) for k in range(K)]))
            else:
                goals.append(z3.Not(z3.Or(*ins[i])))      # NaN: outside all intervals
        rec.twin(P + '/assignment', base, z3.BoolVal(False))
        rec.prove(P + '/value_of_the_containing_interval', base, z3.And(*goals), form='Q1', info=dict(kind='assign'))
    rec.extra['paths_raising_overlap'] = n_raise
    return rec.result()


def run_coarse(rec, seed, T, coarse, win, freq='h'):
    """concrete calendar, symbolic dt / discount factors"""
    eao = lift.import_eao()
    tg = shapes.grid(T, freq)
    dts = sym.symarr('dt', T); dfs = sym.symarr('df', T)
    tg.dt = dts; tg.Dt = np.cumsum(dts); tg.discount_factors = dfs
    s, e = shapes.window(tg, win) if win is not None else (None, None)
    try:
        tg.set_restricted_grid(s, e, coarse)
    except Exception as ex:  # noqa: BLE001
        rec.obligations.append(dict(name='crash', verdict='sat', secs=0, form='crash'))
        rec.candidates.append(dict(name='crash', env={}, info=dict(kind='crash', crash='%s: %s' % (type(ex).__name__, ex)), form='crash'))
        return rec.result()
    r = tg.restricted
    rec.paths = 1
    # covered fine steps, recomputed
    tp = list(tg.timepoints)
    S = tp[0] if s is None else refmap._ts(s, tg.tz); E = tg.end if e is None else refmap._ts(e, tg.tz)
    covered = [t for t in range(T) if S <= tp[t] < E]
    lists = [list(int(i) for i in l) for l in r.I_minor_in_major]
    flat = [i for l in lists for i in l]
    checks = {
        'partition_without_loss': flat == covered,
        'consecutive_blocks': all(l == list(range(l[0], l[0] + len(l))) for l in lists if l),
        'no_empty_interval': all(len(l) > 0 for l in lists),
        'first_minor_is_index': [int(i) for i in r.I] == [l[0] for l in lists],
        'first_minor_is_time_point': all(r.timepoints[k] == tp[l[0]] for k, l in enumerate(lists)),
        'discount_of_first_minor': all(r.discount_factors[k] is dfs[l[0]] for k, l in enumerate(lists)),
        'cumulative_time_of_first_minor': all(r.Dt[k] is tg.Dt[l[0]] for k, l in enumerate(lists)),
        'count': r.T == len(lists),
    }
    for nm, ok in checks.items():
        rec.obligations.append(dict(name=nm, verdict='unsat' if ok else 'sat', secs=0, form='Q2'))
        rec.distinct.add(nm)
        if not ok:
            rec.candidates.append(dict(name=nm, env={}, info=dict(kind='coarse', check=nm, lists=lists, covered=covered), form='struct'))
    rec.twin('dt', [], z3.BoolVal(False))
    rec.vacuity('dt', [])
    for k, l in enumerate(lists):
        want = z3.Sum([zl(dts[i]) for i in l]) if len(l) > 1 else zl(dts[l[0]])
        rec.prove('dt_coarse_is_sum_of_fine/%d' % k, [], zl(r.dt[k]) == want, form='Q2', info=dict(kind='coarse_dt', k=k, l=l))
    return rec.result()


def run_prices(rec, seed):
    eao = lift.import_eao()
    for tz in (None, 'CET'):
        tg = shapes.grid(4, 'h', 'h', tz)
        p = sym.symarr('p', 4); q = sym.symarr('q', 4)
        out = tg.prices_to_grid({'p': p, 'q': q})
        ok = list(out.index) == list(tg.timepoints) and all(out['p'].values[i] is p[i] and out['q'].values[i] is q[i] for i in range(4))
        out2 = tg.prices_to_grid(out)            # a DataFrame that already carries the grid as index
        ok2 = list(out2.index) == list(tg.timepoints) and all(out2['p'].values[i] is p[i] for i in range(4))
        # already gridded data in further containers: DataFrames / dicts of Series with a numeric index that is not the default RangeIndex
        more = []
        for label, mkdata in (('frame_int_index', lambda: pd.DataFrame({'p': p, 'q': q}, index=np.arange(4))),
                              ('frame_float_index', lambda: pd.DataFrame({'p': p, 'q': q}, index=np.arange(4) * 1.0)),
                              ('frame_rows_selected_by_mask', lambda: pd.DataFrame({'p': list(p) + [0.0], 'q': list(q) + [0.0]})[np.array([True] * 4 + [False])]),
                              ('dict_of_lists', lambda: {'p': list(p), 'q': list(q)})):
            try:
                o3 = tg.prices_to_grid(mkdata())
                ok3 = list(o3.index) == list(tg.timepoints) and all(o3['p'].values[i] is p[i] and o3['q'].values[i] is q[i] for i in range(4))
            except sym.Realisation:
                raise
            except Exception as ex:  # noqa: BLE001
                ok3 = False
            more.append(('%s_unchanged/%s' % (label, tz), ok3))
        for nm, o in [('arrays_unchanged/%s' % tz, ok), ('gridded_frame_unchanged/%s' % tz, ok2)] + more:
            rec.obligations.append(dict(name=nm, verdict='unsat' if o else 'sat', secs=0, form='Q2'))
            rec.distinct.add(nm)
            if not o:
                rec.candidates.append(dict(name=nm, env={}, info=dict(kind='prices', tz=str(tz)), form='struct'))
    rec.paths = 2
    rec.twins_ok += 1; rec.vacuity_ok += 1
    return rec.result()


# ------------------------------------------------------------------------------------------------ pristine
CONCRETE = [('h', 'h', None, '2021-01-04', '2021-01-04 06:00'), ('15min', 'h', None, '2021-01-04', '2021-01-04 02:00'), ('15min', 'min', 'CET', '2021-01-04', '2021-01-04 02:00'),
            ('d', 'h', None, '2021-01-04', '2021-01-09'), ('d', 'd', 'CET', '2021-03-26', '2021-03-31'), ('d', 'h', 'CET', '2021-10-29', '2021-11-03'),
            ('h', 'h', 'CET', '2021-03-28 00:00', '2021-03-28 06:00'), ('h', 'min', 'CET', '2021-10-31 00:00', '2021-10-31 06:00'),
            ('d', 'h', 'US/Eastern', '2021-03-12', '2021-03-17'), ('d', 'd', 'US/Eastern', '2021-11-05', '2021-11-10'), ('h', 'h', 'US/Eastern', '2021-11-07 00:00', '2021-11-07 05:00'),
            ('MS', 'd', None, '2021-01-01', '2021-06-01'), ('MS', 'h', 'CET', '2021-02-01', '2021-05-01'), ('30min', 'd', None, '2021-01-04', '2021-01-04 03:00'),
            ('h', 'h', None, '2021-01-04 00:30', '2021-01-04 04:10')]


def observe(case, kwargs, env, rq):
    kw = dict(kwargs)
    kind = kw.pop('kind')
    eao = lift.import_eao()
    if kind == 'prices':
        failing = []
        for tz in (None, 'CET'):
            tg = shapes.grid(4, 'h', 'h', tz)
            p = np.array([1.5, 2.5, 4.0, 8.0]); q = np.array([3.0, 1.0, 2.0, 7.0])
            data = {'arrays': lambda: {'p': p, 'q': q}, 'gridded_frame': lambda: tg.prices_to_grid({'p': p, 'q': q}),
                    'frame_int_index': lambda: pd.DataFrame({'p': p, 'q': q}, index=np.arange(4)),
                    'frame_float_index': lambda: pd.DataFrame({'p': p, 'q': q}, index=np.arange(4) * 1.0),
                    'frame_rows_selected_by_mask': lambda: pd.DataFrame({'p': list(p) + [0.0], 'q': list(q) + [0.0]})[np.array([True] * 4 + [False])],
                    'dict_of_lists': lambda: {'p': list(p), 'q': list(q)}}
            for label, mk in data.items():
                try:
                    o3 = tg.prices_to_grid(mk())
                    ok3 = list(o3.index) == list(tg.timepoints) and list(o3['p'].values) == list(p) and list(o3['q'].values) == list(q)
                    detail = '' if ok3 else 'p becomes %s' % list(o3['p'].values)
                except Exception as ex:  # noqa: BLE001
                    ok3, detail = False, '%s: %s' % (type(ex).__name__, str(ex)[:80])
                if not ok3:
                    failing.append('%s_unchanged/%s: %s' % (label, tz, detail))
        return dict(failing=failing)
    if kind == 'forms':
        from .. import obs
        D = lift.Domain(theta=env)
        a, b = build_forms(D, kw['which'])
        o = dict(form=obs.problem_obs(a))
        if rq.get('kind') == 'replay':
            o['plain'] = obs.problem_obs(b)
        return o
    if kind == 'concrete':
        obligations, violations = [], []
        for freq, unit, tz, s, e in CONCRETE:
            nm = 'grid/%s/%s/%s/%s' % (freq, unit, tz, s)
            tg = eao.assets.Timegrid(pd.Timestamp(s).to_pydatetime(), pd.Timestamp(e).to_pydatetime(), freq=freq, main_time_unit=unit, timezone=tz)
            tp = list(tg.timepoints)
            S = pd.Timestamp(s, tz=tz); E = pd.Timestamp(e, tz=tz)
            us = refmap.UNIT_S[unit]
            utc = [t.tz_convert('UTC') if t.tzinfo is not None else t for t in tp]
            problems = []
            if not all(utc[i] < utc[i + 1] for i in range(len(tp) - 1)):
                problems.append('points not strictly increasing')
            if tp[0] != S:
                problems.append('first point %s is not the grid start %s' % (tp[0], S))
            if not tp[-1] < E:
                problems.append('last point not before the end')
            if tg.T != len(tp) or list(tg.I) != list(range(len(tp))):
                problems.append('T / I inconsistent')
            # elapsed time to the next point (the last step runs to the next regular point, which pandas generated: recompute it)
            nxt = pd.date_range(start=S, end=E, freq=freq, tz=tz)
            for i in range(len(tp)):
                el = (nxt[i + 1] - nxt[i]).total_seconds() / us
                if abs(float(tg.dt[i]) - el) > 1e-9 * max(1, abs(el)):
                    problems.append('dt[%d]=%g but %g %s elapse to the next point' % (i, float(tg.dt[i]), el, unit))
            if np.max(np.abs(np.cumsum(np.asarray(tg.dt, dtype=float)) - np.asarray(tg.Dt, dtype=float))) > 1e-9:
                problems.append('Dt is not the cumulative sum of dt')
            obligations.append(dict(name=nm, verdict='unsat' if not problems else 'sat', secs=0, form='L0'))
            if problems:
                violations.append(dict(name=nm, text='; '.join(problems[:3]), env={}, info=dict(freq=freq, unit=unit, tz=str(tz), start=s, end=e)))
        # the grids a split set-up builds for its intervals (captured from the real call): step lengths in THEIR main time unit are the elapsed time
        captured = []
        TG = eao.basic_classes.Timegrid
        orig_init = TG.__init__

        def spy(self, *a, **k):
            orig_init(self, *a, **k)
            if k.get('ref_timegrid') is not None or (len(a) > 5 and a[5] is not None):
                captured.append(self)
        for unit, freq, split in (('d', 'h', '2h'), ('min', '15min', '30min'), ('h', '12h', 'd')):
            nm = 'split_interval_grids/%s/%s/%s' % (unit, freq, split)
            del captured[:]
            tgm = TG(pd.Timestamp('2021-01-04').to_pydatetime(), (pd.Timestamp('2021-01-04') + 4 * (pd.Timedelta(freq) if any(ch.isdigit() for ch in freq) else pd.Timedelta(1, freq))).to_pydatetime(),
                     freq=freq, main_time_unit=unit)
            nA = eao.assets.Node('A')
            pf = eao.portfolio.Portfolio([eao.assets.SimpleContract(name='a', nodes=nA, price='p', min_cap=-1., max_cap=1.)])
            TG.__init__ = spy
            try:
                pf.setup_split_optim_problem(pd.DataFrame({'p': np.arange(4.)}), tgm, interval_size=split)
            finally:
                TG.__init__ = orig_init
            problems = []
            subs = [g for g in captured if getattr(g, 'T', 0) > 0 and g.freq == tgm.freq]
            if not subs:
                problems.append('no interval grid was built')
            for g in subs:
                us = refmap.UNIT_S[g.main_time_unit]
                pts = list(g.timepoints)
                for i in range(len(pts)):
                    nxt_ = pts[i + 1] if i + 1 < len(pts) else pd.Timestamp(g.end)
                    el = (pd.Timestamp(nxt_) - pd.Timestamp(pts[i])).total_seconds() / us
                    if abs(float(g.dt[i]) - el) > 1e-9 * max(1, abs(el)):
                        problems.append('interval grid from %s: dt[%d]=%g but %g %s elapse to the next point (main time unit of this grid: %s)' % (pts[0], i, float(g.dt[i]), el, g.main_time_unit, g.main_time_unit))
            obligations.append(dict(name=nm, verdict='unsat' if not problems else 'sat', secs=0, form='L0'))
            if problems:
                violations.append(dict(name=nm, text='; '.join(problems[:2]), env={}, info=dict(unit=unit, freq=freq, split=split)))
        return dict(obligations=obligations, violations=violations, solver_s=0.0, samples=[dict(case='concrete_grids', grids=len(CONCRETE))])
    # replays of symbolic-time candidates: concrete instants from the witness (hours after a reference instant)
    t0 = pd.Timestamp('2021-01-04')
    tm = lambda name: t0 + pd.Timedelta(hours=float(env.get(name, 0.0)))
    info = rq.get('info', {})
    if kind == 'restricted':
        T = kw['T']
        pts = [tm('tp%d' % i) for i in range(T)]
        tg = object.__new__(eao.basic_classes.Timegrid)
        tg.freq = 'h'; tg.main_time_unit = 'h'; tg.tz = None
        tg.timepoints = pd.DatetimeIndex(pts); tg.T = T; tg.I = np.arange(T)
        tg.dt = np.array([float(env.get('dt%d' % i, 1.0)) for i in range(T)]); tg.Dt = np.cumsum(tg.dt)
        tg.start = pts[0]; tg.end = tm('tend'); tg.discount_factors = np.array([float(env.get('df%d' % i, 1.0)) for i in range(T)])
        r = eao.basic_classes.Timegrid(tm('rs'), tm('re'), freq='h', main_time_unit='h', ref_timegrid=tg)
        want = [i for i in range(T) if tm('rs') <= pts[i] < tm('re')]
        return dict(got=[int(i) for i in r.I], want=want, dt_ok=bool(np.allclose(r.dt, tg.dt[want])) if len(want) == len(r.I) else False)
    if kind == 'values':
        T, form = kw['T'], kw['form']
        pts = [tm('tp%d' % i) for i in range(T)]
        tg = object.__new__(eao.basic_classes.Timegrid)
        tg.freq = 'h'; tg.main_time_unit = 'h'; tg.tz = None
        tg.timepoints = pd.DatetimeIndex(pts); tg.T = T; tg.I = np.arange(T)
        tg.dt = np.array([float(env.get('dt%d' % i, 1.0)) for i in range(T)]); tg.Dt = np.cumsum(tg.dt)
        tg.start = pts[0]; tg.end = tm('tend')          # every attribute a real grid carries (as in the lifted run)
        v = [float(env.get('v%d' % k, k + 1.0)) for k in range(3)]
        if form == 'implicit3':
            inp = {'start': [tm('s0'), tm('s1'), tm('s2')], 'values': v}
            iv = [(tm('s0'), tm('s1'), v[0]), (tm('s1'), tm('s2'), v[1]), (tm('s2'), tm('s2') + 2 * (tm('s2') - tm('s1')), v[2])]
        elif form == 'explicit':
            inp = {'start': [tm('s0'), tm('s1')], 'end': [tm('e0'), tm('e1')], 'values': v[:2]}
            iv = list(zip(inp['start'], inp['end'], v[:2]))
        elif form == 'implicit':
            inp = {'start': [tm('s0'), tm('s1')], 'values': v[:2]}
            iv = [(tm('s0'), tm('s1'), v[0]), (tm('s1'), tm('s1') + 2 * (tm('s1') - tm('s0')), v[1])]
        elif form == 'single':
            inp = {'start': [tm('s0')], 'values': v[:1]}
            iv = [(tm('s0'), pd.Timestamp.max, v[0])]
        else:
            inp = {'start': tm('s0'), 'end': tm('e0'), 'values': v[0]}
            iv = [(tm('s0'), tm('e0'), v[0])]
        cont = [[k for k, (a, b, _) in enumerate(iv) if a <= p < b] for p in pts]
        try:
            r = tg.values_to_grid(inp)
            got = [None if np.isnan(x) else float(x) for x in r]
            raised = False
        except ValueError as ex:
            got, raised = None, True
        return dict(got=got, raised=raised, containing=cont, values=[x[2] for x in iv])
    if kind == 'coarse':
        tg = shapes.grid(kw['T'], kw.get('freq', 'h'))
        s, e = shapes.window(tg, kw['win']) if kw['win'] is not None else (None, None)
        tg.set_restricted_grid(s, e, kw['coarse'])
        r = tg.restricted
        tp = list(tg.timepoints)
        S = tp[0] if s is None else refmap._ts(s, tg.tz); E = tg.end if e is None else refmap._ts(e, tg.tz)
        lists = [list(int(i) for i in l) for l in r.I_minor_in_major]
        return dict(lists=lists, covered=[t for t in range(tg.T) if S <= tp[t] < E], dt=[float(x) for x in r.dt], fine_dt=[float(x) for x in tg.dt],
                    I=[int(i) for i in r.I])
    return dict(note='no numeric replay')


def judge(case, kwargs, cand, ans):
    info = cand.get('info', {})
    if cand.get('form') == 'crash' or 'crash' in info:
        return (True, 'raises on an in-domain input: ' + ans['error'][:200]) if 'error' in ans else (False, 'no exception')
    if 'error' in ans:
        return None, ans['error']
    o = ans['obs']
    k = info.get('kind')
    if k == 'prices':
        mine = [f for f in o['failing'] if f.startswith(cand['name'])]
        return (True, 'already gridded price data are changed: %s' % mine[0]) if mine else (False, 'passes through unchanged on the unshimmed code')
    if k == 'forms':
        from .. import replay
        d = replay.diff(o['form'], o['plain'])
        return (True, 'the parameter form under test gives another problem than the plain per-step data: %s' % d) if d else (False, 'identical on the unshimmed code')
    if k in ('restricted', 'subset'):
        bad = o['got'] != o['want'] or not o.get('dt_ok', True)
        return bad, 'restricted grid keeps steps %s, the window contains %s' % (o['got'], o['want'])
    if k == 'raise':
        amb = any(len(c) > 1 for c in o['containing'])
        return (o['raised'] and not amb), 'ValueError although no grid point lies in two intervals (containing intervals per point: %s)' % o['containing']
    if k == 'assign':
        amb = any(len(c) > 1 for c in o['containing'])
        if o['raised']:
            return (not amb), 'unexpected ValueError'
        if amb:
            return True, 'a grid point lies in two intervals %s but no error is raised; assigned %s' % (o['containing'], o['got'])
        want = [None if not c else o['values'][c[0]] for c in o['containing']]
        return want != o['got'], 'assigned %s, the containing intervals give %s' % (o['got'], want)
    if k in ('coarse', 'coarse_dt'):
        lists, cov = o['lists'], o['covered']
        flat = [i for l in lists for i in l]
        if flat != cov:
            return True, 'coarse intervals cover fine steps %s, the window contains %s' % (flat, cov)
        want = [sum(o['fine_dt'][i] for i in l) for l in lists]
        bad = any(abs(a - b) > 1e-9 for a, b in zip(o['dt'], want))
        return bad, 'coarse step lengths %s, sums of their fine steps %s' % (o['dt'], want)
    return None, 'no numeric replay for this obligation'
