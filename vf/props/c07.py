"""C07 The variable mapping is a faithful description of the assembled problem.

Structural obligations (decided on the concrete structure of every lifted path) and Q2/Q1 obligations over the symbolic
numbers, asset-level and portfolio-level:
  lengths of c,l,u / columns of A agree; mapping index within [0,n); steps on the grid; no NaN;
  the k-th asset's i-th variable is global variable off_k+i (off_k from the recorded sizes of the assets' own set-up
  calls): its mapping rows name that asset and equal the asset's own rows, its c,l,u equal the asset's own entries (for all
  parameter values), its column in the asset's rows equals the asset's own column and is zero elsewhere (except nodal rows);
  a variable without mapping row has c = 0 and a zero column;  D => l <= u;
  the N rows are in bijection with the (node, step) pairs that carry dispatch rows, and row r's coefficients are the
  summed disp_factors of the rows of the pair map_nodal_restr[r] names.
"""
import numpy as np
import pandas as pd
import z3

from .. import scen, common, sym, lpsem, lift
from ..sym import Sym, lift as zl
from ..shims import to_dense
from . import c01, c04

PROP = 'C07'
QUICK = [c for c in c04.QUICK if c[2] is None] + [
    ('names_collide', dict(T=3, names=('1x', 'x')), None, 'B'),
    ('plant_win_empty', dict(T=3, fuel=True, win=(5, 7)), None, 'B'),
    ('windows_gap', dict(T=4), None, 'B'),
    ('plant_dict_costs', dict(T=3, fuel=True, start_costs='dict'), None, 'B'),
    ('split_orderbook_last', dict(T=4, ob_last=True, orders=((0, 1, 2.0), (2, 4, -1.5), (3, 4, 1.0))), '2h', 'A'),
    ('split_two_node', dict(T=4, freq='12h', unit='h', wacc=True), 'd', 'A'),
    ('orderbook_all_outside', dict(T=3, orders=((-3, -1, 1.0), (5, 7, 1.0))), None, 'B'),
    ('scaled_periodic_base', dict(T=5, base='periodic_contract'), None, 'B'),
    ('scaled_periodic_transport_base', dict(T=5, base='periodic_transport'), None, 'B'),
    ('scaled_orderbook_last_order_outside', dict(T=3, base='orderbook_last_outside'), None, 'A'),
    ('scaled_orderbook_first_order_outside', dict(T=3, base='orderbook_first_outside'), None, 'A'),
    ('storage_window_no_simult', dict(T=4, win_s=(2, 4), storage_kw=dict(no_simult_in_out=True)), None, 'A'),
    ('minload_plant_fuel_and_ramps', dict(T=3, fuel=True, ramps=True), None, 'B'),
    ('minload_plant_late_window', dict(T=4, fuel=True, ramps=False, win=(2, 4)), None, 'B'),
    ('minload_plant_fuel_only', dict(T=3, fuel=True, ramps=False), None, 'B'),
    ('minload_chp_ramps', dict(T=2, fuel=False, ramps=True, heat=True), None, 'B'),
    ('storage_window_max_duration', dict(T=4, eff=None, win_s=(2, 4), storage_kw=dict(max_store_duration=1, costs=False)), None, 'A'),
    ('plant_window_late', dict(T=4, fuel=True, mr=2, win=(2, 4)), None, 'B'),
]
THOROUGH = QUICK + [c for c in c04.THOROUGH if c[2] is None and c not in c04.QUICK] + [
    ('names_collide_T12', dict(T=12, names=('1x', 'x')), None, 'A'),
    ('contract_storage_mip', dict(T=3, storage_kw=dict(no_simult_in_out=True)), None, 'B'),
    ('contract_storage_msd', dict(T=4, storage_kw=dict(max_store_duration=2)), None, 'B'),
]
SHAPE_OF = dict(c04.SHAPE_OF, scaled_orderbook_last_order_outside='scaled', scaled_orderbook_first_order_outside='scaled', minload_plant_fuel_and_ramps='plant_minload', minload_plant_fuel_only='plant_minload', minload_plant_late_window='plant_minload', minload_chp_ramps='plant_minload', storage_window_max_duration='contract_storage', scaled_periodic_base='scaled', scaled_periodic_transport_base='scaled', storage_window_no_simult='contract_storage', plant_window_late='plant', plant_dict_costs='plant', names_collide='names', names_collide_T12='names', plant_win_empty='plant',
                orderbook_all_outside='orderbook', contract_storage_mip='contract_storage',
                contract_storage_msd='contract_storage')
GRIDV_QUICK = [('two_node', 'month_d'), ('plant_dict_costs', 'day_d_cet_dst'), ('windows_gap', 'quarter_min'), ('scaled_storage', 'day_h_useast_fall')]
BOUNDS = dict(quick='shapes %s, T<=8 (12 for the colliding-names shape)' % [c[0] for c in QUICK],
              thorough='shapes %s' % [c[0] for c in THOROUGH])
OUTSIDE = ['SLP problems (their mapping is checked in C17)']


# periodic assets: the mapping of the merged problem against the mapping of the same asset WITHOUT periodicity -- the rows of a merged
# variable are exactly the rows of the variables it stands for (groups of equal period position recomputed by the harness, c13.structure)
PERIODIC = [
    ('periodic_map_contract', dict(kind='contract', T=4)),
    ('periodic_map_transport_T6', dict(kind='transport', T=6, eff=0.5)),
    ('periodic_map_transport_dur', dict(kind='transport', T=8, eff=0.5, duration='4h')),
    ('periodic_map_storage', dict(kind='storage', T=4, eff=0.75)),
    ('periodic_map_ext_transport', dict(kind='ext_transport', T=6, eff=0.5)),
    ('periodic_map_multicommodity', dict(kind='multicommodity', T=6)),
]


def periodic_rows(po, tg, opo, opf, period, duration):
    """None, or what is wrong with the mapping of the periodic problem opo against the mapping of the non-periodic problem opf"""
    from . import c13
    a_opt = [a for a in po.assets if a.name == 'as'][0]
    groups = c13.structure(tg, a_opt, 'periodic', None, period, duration)
    group_of = {t: gi for gi, g in enumerate(groups) for t in g}
    cols = ['asset', 'node', 'type', 'var_name', 'time_step']
    rows_o, rows_f = _rows_of(opo.mapping, cols), _rows_of(opf.mapping, cols)
    norm = lambda r: (str(r[0]), r[1] if isinstance(r[1], str) else '', r[2], str(r[3]), int(r[4]))
    # fine variable -> (asset, var_name, node of first row, group) ; merged variable identified the same way
    def ident(rows):
        r0 = norm(rows[0])
        return (r0[0], r0[3], r0[1], group_of.get(r0[4]) if r0[0] == 'as' else ('t', r0[4]))
    want = {}
    for i, rows in rows_f.items():
        want.setdefault(ident(rows), []).extend(norm(r) for r in rows)
    got = {}
    bad = None
    for i, rows in rows_o.items():
        k_ = ident(rows)
        if k_ in got:
            bad = dict(why='two variables of the periodic problem stand for the same group', key=str(k_))
        got[k_] = sorted(norm(r) for r in rows)
    if bad is None and set(got) != set(want):
        bad = dict(why='variables differ', missing=[str(k_) for k_ in set(want) - set(got)][:3], extra=[str(k_) for k_ in set(got) - set(want)][:3])
    if bad is None:
        for k_ in want:
            if sorted(want[k_]) != got[k_]:
                bad = dict(why='rows of a merged variable are not the rows of the variables it stands for', key=str(k_), want=sorted(want[k_])[:4], got=got[k_][:4])
                break
    return bad


def run_periodic(rec, seed, kind, T, **kw):
    from . import c13
    from .. import embed_lp
    period = kw.get('period', '2h'); duration = kw.get('duration')

    def build(D):
        po, pfine, tg, prices = c13.build_pair(D, 'periodic', kind, T, **kw)
        return po, tg, po.setup_optim_problem(prices, tg), pfine.setup_optim_problem(prices, tg)
    res = lift.explore_build(build, level='A')
    rec.paths = len(res)
    validated = False
    for pi, (path, D) in enumerate(res):
        P = 'p%d' % pi
        if path.exc is not None:
            if common.is_rejection(path.exc):
                rec.rejected_paths += 1
                continue
            common.crash_candidate(rec, P + '/crash', path, D)
            continue
        po, tg, opo, opf = path.result
        base = list(D.pre) + path.pc + sym.atom_constraints()
        if rec.vacuity(P, base) is None:
            continue
        env_pt = common.generic_point(base, D.names, seed) or {}
        structural(rec, P + '/portfolio', opo, tg.T, env_pt)
        bad = periodic_rows(po, tg, opo, opf, period, duration)
        if bad:
            bad.update(kind='periodic_rows', env=env_pt)
            _fail(rec, P + '/periodic_rows', bad)
        else:
            _ok(rec, P + '/periodic_rows')
    rec.twins_ok += 1
    return rec.result()


def cases(tier, seed):
    lst = THOROUGH if tier == 'thorough' else QUICK
    lst = lst + c01.grid_variants(lst, tier, SHAPE_OF, GRIDV_QUICK)
    out = [(cid, dict(shape=SHAPE_OF.get(cid.split('@')[0], cid.split('@')[0]), kw=dict(kw), split=split, level=level)) for cid, kw, split, level in lst]
    for cid, kw in PERIODIC:
        out.append((cid, dict(shape='-', kw=dict(kw), split=None, level='periodic')))
    # sequences of calls on the same objects (decided with C10's history machinery: the final problem equals that of fresh objects)
    # -- a grid with the same number of steps one hour later, then the original one: nodal rows follow the mapping of the call at hand
    out.append(('history_nodal_rows_after_a_setup_on_a_shifted_grid', common.delegated('c10', pf='dicts', final='h', histories=[['hshift']])))
    return out


def _fail(rec, name, info):
    rec.obligations.append(dict(name=name, verdict='sat', secs=0.0, form='struct'))
    rec.distinct.add(name)
    rec.candidates.append(dict(name=name, env=info.pop('env', {}), info=info, form='struct'))


def _ok(rec, name):
    rec.obligations.append(dict(name=name, verdict='unsat', secs=0.0, form='struct'))
    rec.distinct.add(name)


def _rows_of(mp, cols):
    """index -> sorted list of row tuples"""
    d = {}
    if mp is None or not len(mp):
        return d
    cols = [c for c in cols if c in mp.columns]
    for i, r in zip(mp.index, mp[cols].itertuples(index=False)):
        d.setdefault(int(i), []).append(tuple(r))
    return d


def structural(rec, tag, op, T, env_pt):
    """asset-level or portfolio-level problem: lengths, index range, steps, NaN"""
    n = len(op.c)
    A = to_dense(op.A)
    ok = len(op.l) == n and len(op.u) == n and (A is None or A.size == 0 or A.shape[1] == n)
    if A is not None and A.size:
        ok = ok and A.shape[0] == len(op.b) == len(op.cType or '')
    (_ok if ok else lambda r, nm: _fail(r, nm, dict(kind='lengths', tag=tag, env=env_pt)))(rec, tag + '/lengths')
    if not ok:
        return False      # vectors and matrix disagree in size: nothing further can be said about this problem
    mp = op.mapping
    if mp is not None and len(mp):
        idx = np.asarray(mp.index, dtype=float)
        good = bool(np.all((idx >= 0) & (idx < n) & (idx == np.floor(idx))))
        (_ok if good else lambda r, nm: _fail(r, nm, dict(kind='index_range', tag=tag, n=n, idx=sorted(set(idx.tolist()))[-3:], env=env_pt)))(rec, tag + '/index_range')
        ts = np.asarray(mp['time_step'], dtype=float)
        good = bool(np.all((ts >= 0) & (ts < T) & (ts == np.floor(ts))))
        (_ok if good else lambda r, nm: _fail(r, nm, dict(kind='steps', tag=tag, env=env_pt)))(rec, tag + '/steps_on_grid')
    nan = False
    for arr in (op.c, op.l, op.u, op.b if op.b is not None else []):
        for v in np.asarray(arr, dtype=object).reshape(-1):
            if not isinstance(v, Sym) and v != v:
                nan = True
    if A is not None:
        for v in A.reshape(-1):
            if not isinstance(v, Sym) and v != v:
                nan = True
    (_ok if not nan else lambda r, nm: _fail(r, nm, dict(kind='nan', tag=tag, env=env_pt)))(rec, tag + '/no_nan')
    return True


def run_split(rec, seed, shape, kw, split, level):
    """split problems: the global mapping must describe the concatenated interval problems (structure shared with C14)"""
    from . import c14
    res = scen.explore(shape, kw, split=split, level=level, with_output=False)
    rec.paths = len(res)
    for pi, (path, D) in enumerate(res):
        P = 'p%d' % pi
        if path.exc is not None:
            if common.is_rejection(path.exc):
                rec.rejected_paths += 1
                continue
            common.crash_candidate(rec, P + '/crash', path, D)
            continue
        sc = path.result
        ivs = c14.interval_steps(sc.sh.tg, split, sc.sh.portf)
        ok, why = c14.split_mapping_check(sc, sc.sh.tg, ivs)
        nm = P + '/split_mapping'
        rec.obligations.append(dict(name=nm, verdict='unsat' if ok else 'sat', secs=0, form='Q2'))
        rec.distinct.add(nm)
        if not ok:
            env = common.generic_point(list(D.pre) + path.pc, D.names, seed) or {}
            rec.candidates.append(dict(name=nm, env=env, info=dict(kind='mapping', why=why), form='struct'))
        for k_, op in enumerate(sc.ops):
            structural(rec, P + '/interval%d/portfolio' % k_, op, len(ivs[k_]) if k_ < len(ivs) else sc.sh.tg.T, {})
    return rec.result()


def run_case(case_id, tier, seed, shape, kw, split, level):
    rec = lpsem.Rec(PROP, case_id)
    if level == 'periodic':
        return run_periodic(rec, seed, **kw)
    if split is not None:
        return run_split(rec, seed, shape, kw, split, level)
    res = scen.explore(shape, kw, split=None, level=level, with_output=False)
    rec.paths = len(res)
    validated = False
    for pi, (path, D) in enumerate(res):
        if path.exc is not None:
            if common.is_rejection(path.exc):
                rec.rejected_paths += 1
                continue
            common.crash_candidate(rec, 'p%d/crash' % pi, path, D)
            continue
        sc = path.result
        assume = list(D.pre) + path.pc + sym.atom_constraints()
        m = rec.vacuity('p%d' % pi, assume)
        if m is None:
            continue
        env_pt = common.generic_point(assume, D.names, seed) or {}
        tg = sc.sh.tg
        op = sc.op
        P = 'p%d' % pi
        sizes_ok = structural(rec, P + '/portfolio', op, tg.T, env_pt)
        for b in sc.blocks:
            sizes_ok = structural(rec, P + '/asset/' + b.asset, b, tg.T, env_pt) and sizes_ok
        if not sizes_ok:
            continue
        lp = lpsem.LP(op)
        n = lp.n
        # ---- internal (boolean) variables are mapped to the step of the dispatch variables they switch
        conf = common.internal_step_conflicts(op)
        if conf:
            _fail(rec, P + '/internal_variable_steps', dict(kind='internal_steps', env=env_pt, conflicts=[list(map(str, c)) for c in conf[:4]]))
        else:
            _ok(rec, P + '/internal_variable_steps')
        # ---- l <= u for all parameter values in the domain
        goals = [lp.l[i] <= lp.u[i] for i in range(n) if not z3.is_true(z3.simplify(lp.l[i] <= lp.u[i]))]
        if goals:
            rec.twin(P + '/l_le_u', assume, z3.BoolVal(False))
            rec.prove(P + '/l_le_u', assume, z3.And(*goals), form='Q1', info=dict(kind='l_le_u'))
        # ---- blocks
        if sum(b.n for b in sc.blocks) != n or [b.asset for b in sc.blocks] != [a.name for a in sc.sh.portf.assets]:
            _fail(rec, P + '/blocks', dict(kind='blocks', env=env_pt, sizes=[(b.asset, b.n) for b in sc.blocks], n=n))
            continue
        cols = ['asset', 'node', 'type', 'var_name', 'time_step']
        glob_rows = _rows_of(op.mapping, cols)
        glob_df = _rows_of(op.mapping, ['disp_factor']) if 'disp_factor' in op.mapping.columns else {}
        Aglob = to_dense(op.A)
        off = 0
        row_off = 0
        eqs = []          # (label, lhs, rhs) term equalities to prove for all theta
        mapped = set(glob_rows)
        for b in sc.blocks:
            own_rows = _rows_of(b.mapping, cols)
            own_df = _rows_of(b.mapping, ['disp_factor']) if b.mapping is not None and 'disp_factor' in b.mapping.columns else {}
            bad = None
            for i in range(b.n):
                g = off + i
                gr = glob_rows.get(g, [])
                orr = own_rows.get(i, [])
                # asset column of own rows may differ for wrappers (scaled/structured rename) -> compare to the recorded own mapping
                norm = lambda rows: sorted((str(r[0]), r[1] if isinstance(r[1], str) else '', r[2], str(r[3]), int(r[4])) for r in rows)
                if norm(gr) != norm(orr):
                    bad = dict(var=g, glob=norm(gr)[:3], own=norm(orr)[:3])
                    break
                if any(str(r[0]) != b.asset for r in gr):
                    bad = dict(var=g, glob=norm(gr)[:3], why='row names another asset')
                    break
                eqs.append(('c[%d]' % g, lp.c[g], zl(b.c[i])))
                eqs.append(('l[%d]' % g, lp.l[g], zl(b.l[i])))
                eqs.append(('u[%d]' % g, lp.u[g], zl(b.u[i])))
                # disp factors (default 1 where the asset has none)
                gd = [zl(v[0]) if not (isinstance(v[0], float) and v[0] != v[0]) else z3.RealVal(1) for v in glob_df.get(g, [])]
                od = [zl(v[0]) if not (isinstance(v[0], float) and v[0] != v[0]) else z3.RealVal(1) for v in own_df.get(i, [])]
                if od and len(gd) == len(od):
                    for k_, (a_, b_) in enumerate(zip(gd, od)):
                        eqs.append(('dispf[%d][%d]' % (g, k_), a_, b_))
            if bad:
                bad.update(kind='rows', env=env_pt, asset=b.asset)
                _fail(rec, P + '/rows/' + b.asset, bad)
            else:
                _ok(rec, P + '/rows/' + b.asset)
            # asset's own rows inside the global matrix
            Aown = to_dense(b.A)
            if Aown is not None and Aown.size:
                k = Aown.shape[0]
                for r in range(k):
                    for j in range(n):
                        gv = Aglob[row_off + r, j]
                        ov = Aown[r, j - off] if off <= j < off + b.n else 0.0
                        if isinstance(gv, Sym) or isinstance(ov, Sym) or gv != ov:
                            eqs.append(('A[%d,%d]' % (row_off + r, j), zl(gv), zl(ov)))
                    eqs.append(('b[%d]' % (row_off + r), zl(op.b[row_off + r]), zl(b.b[r])))
                ctg = op.cType[row_off:row_off + k]
                (_ok if ctg == b.cType else lambda r_, nm: _fail(r_, nm, dict(kind='ctype', env=env_pt, asset=b.asset)))(rec, P + '/ctype/' + b.asset)
                row_off += k
            off += b.n
        # unmapped variables: zero cost, zero column
        for g in range(n):
            if g not in mapped:
                eqs.append(('unmapped_c[%d]' % g, lp.c[g], z3.RealVal(0)))
                if Aglob is not None:
                    for r in range(Aglob.shape[0]):
                        v = Aglob[r, g]
                        if isinstance(v, Sym) or v != 0:
                            eqs.append(('unmapped_A[%d,%d]' % (r, g), zl(v), z3.RealVal(0)))
        todo = [(lab, a_, b_) for lab, a_, b_ in eqs if not a_.eq(b_)]
        rec.extra['entries_syntactically_equal'] = rec.extra.get('entries_syntactically_equal', 0) + len(eqs) - len(todo)
        _ok(rec, P + '/entries_identical_%d' % (len(eqs) - len(todo)))
        for lab, a_, b_ in todo:
            rec.prove(P + '/eq/' + lab, assume, a_ == b_, form='Q2', info=dict(kind='entry', label=lab))
        # ---- nodal rows
        nN = (Aglob.shape[0] - row_off) if Aglob is not None else 0    # rows after the assets' own blocks
        mnr = op.map_nodal_restr or []
        mp = op.mapping
        pairs = {}
        for i, r in mp.iterrows():
            if r['type'] == 'd' and isinstance(r['node'], str):
                df = r['disp_factor'] if 'disp_factor' in mp.columns else 1.0
                if isinstance(df, float) and df != df:
                    df = 1.0
                pairs.setdefault((int(r['time_step']), r['node']), {}).setdefault(int(i), []).append(df)
        okN = nN == len(mnr) == len(pairs) and len(set(map(tuple, mnr))) == len(mnr) and set(map(tuple, mnr)) == set(pairs) \
            and (op.cType or '').endswith('N' * nN)
        if not okN:
            _fail(rec, P + '/nodal_bijection', dict(kind='nodal_bijection', env=env_pt, nN=nN, n_pairs=len(pairs), n_map=len(mnr)))
        else:
            _ok(rec, P + '/nodal_bijection')
            base = Aglob.shape[0] - nN
            neq = []
            for r, (t, nd) in enumerate(mnr):
                want = pairs[(t, nd)]
                for j in range(n):
                    gv = zl(Aglob[base + r, j])
                    wv = common.z3sum(want[j]) if j in want else z3.RealVal(0)
                    if not z3.simplify(gv).eq(z3.simplify(wv)):
                        neq.append(gv == wv)
                if not z3.simplify(zl(op.b[base + r])).eq(z3.RealVal(0)):
                    neq.append(zl(op.b[base + r]) == 0)
            if neq:
                rec.prove(P + '/nodal_rows', assume, z3.And(*neq), form='Q2', info=dict(kind='nodal_rows'))
            else:
                _ok(rec, P + '/nodal_rows')
        if not validated:
            validated = scen.validation_request(rec, sc, D, path, seed)
    return rec.result()


def observe(case, kwargs, env, rq):
    if kwargs.get('level') == 'periodic':
        from . import c13
        from .. import obs as _obs
        D = lift.Domain(theta=env)
        kw = dict(kwargs['kw']); kind = kw.pop('kind'); T = kw.pop('T')
        po, pfine, tg, prices = c13.build_pair(D, 'periodic', kind, T, **kw)
        opo, opf = po.setup_optim_problem(prices, tg), pfine.setup_optim_problem(prices, tg)
        bad = periodic_rows(po, tg, opo, opf, kw.get('period', '2h'), kw.get('duration'))
        return dict(problem=_obs.problem_obs(opo), periodic_rows=None if bad is None else {k: str(v) for k, v in bad.items()})
    if kwargs.get('split') is not None:
        from . import c14
        return c14.observe(case, dict(kwargs, coupled=False), env, rq)
    kwargs = dict(kwargs, with_output=False)
    D = lift.Domain(theta=env)
    sc = scen.run(D, kwargs['shape'], kwargs.get('kw'), None, False, env=env)
    o = scen.observation(sc)
    from .. import obs as _obs
    if rq.get('kind') == 'replay':
        o['blocks'] = [dict(asset=b.asset, n=b.n, problem=_obs.problem_obs(b)) for b in sc.blocks]
        o['T'] = sc.sh.tg.T
    return o


def judge(case, kwargs, cand, ans):
    """re-evaluate the violated statement on the unshimmed code's data at the witness point"""
    info = cand.get('info', {})
    if cand.get('form') == 'crash' or 'crash' in info:
        return (True, 'raises on an in-domain input: ' + ans['error'][:200]) if 'error' in ans else (False, 'no exception')
    if 'error' in ans:
        return None, ans['error']
    if info.get('kind') == 'mapping':
        from . import c14
        return c14.judge(case, kwargs, cand, ans)
    if info.get('kind') == 'internal_steps':
        return common.judge_internal_steps(ans['obs']['problem'])
    if info.get('kind') == 'periodic_rows':
        b = ans['obs'].get('periodic_rows')
        return (True, 'mapping of the periodic problem: %s' % b) if b else (False, 'mapping rows of the periodic problem are right on the unshimmed code')
    o = ans['obs']
    p = o['problem']
    n = len(p['c'])
    kind = info.get('kind')
    blocks = o['blocks']
    tol = 1e-9

    def prob(tag):
        if tag is None or tag.endswith('/portfolio'):
            return p
        nm = tag.split('/asset/')[-1]
        return [b for b in blocks if b['asset'] == nm][0]['problem']
    if kind == 'lengths':
        q = prob(info['tag'])
        m = len(q['c'])
        bad = len(q['l']) != m or len(q['u']) != m or (q['A'] and len(q['A'][0]) != m) or (q['A'] and (len(q['A']) != len(q['b']) or len(q['b']) != len(q['cType'])))
        return (True, 'vector/matrix sizes disagree in ' + info['tag']) if bad else (False, 'sizes agree')
    if kind == 'index_range':
        q = prob(info['tag'])
        m = len(q['c'])
        bad = [r['index'] for r in q['mapping'] if not (0 <= r['index'] < m)]
        return (True, '%s: mapping index %s outside [0,%d)' % (info['tag'], bad[:3], m)) if bad else (False, 'index in range')
    if kind == 'steps':
        q = prob(info['tag'])
        bad = [r['time_step'] for r in q['mapping'] if not (0 <= r['time_step'] < o['T'])]
        return (True, 'time steps off the grid: %s' % bad[:3]) if bad else (False, 'steps on grid')
    if kind == 'nan':
        q = prob(info['tag'])
        bad = any(v is None for k in ('c', 'l', 'u', 'b') for v in q[k]) or any(v is None for row in q['A'] for v in row)
        return (True, 'NaN entry in ' + info['tag']) if bad else (False, 'no NaN')
    if kind == 'l_le_u':
        bad = [i for i in range(n) if p['l'][i] > p['u'][i] + 1e-9 * max(1, abs(p['u'][i]))]
        return (True, 'l > u at variables %s' % bad[:4]) if bad else (False, 'l <= u')
    if kind == 'blocks':
        bad = sum(b['n'] for b in blocks) != n
        return (True, 'asset variable counts %s do not add up to %d' % ([(b['asset'], b['n']) for b in blocks], n)) if bad else (False, 'blocks add up')
    # generic re-evaluation of the assembled-vs-own comparison on concrete data
    off = 0
    row_off = 0
    byidx = {}
    for r in p['mapping']:
        byidx.setdefault(r['index'], []).append(r)
    problems = []
    for b in blocks:
        q = b['problem']
        own = {}
        for r in q['mapping']:
            own.setdefault(r['index'], []).append(r)
        for i in range(b['n']):
            g = off + i
            key = lambda r: (r.get('node'), r.get('type'), str(r.get('var_name')), r.get('time_step'))
            if sorted(map(key, byidx.get(g, [])), key=str) != sorted(map(key, own.get(i, [])), key=str):
                problems.append('variable %d: mapping rows differ from asset %s variable %d' % (g, b['asset'], i))
            elif any(r['asset'] != b['asset'] for r in byidx.get(g, [])):
                problems.append('variable %d: row names another asset' % g)
            for k in ('c', 'l', 'u'):
                if abs(p[k][g] - q[k][i]) > tol * max(1, abs(q[k][i])):
                    problems.append('%s[%d]=%g but asset %s has %g' % (k, g, p[k][g], b['asset'], q[k][i]))
        if q['A']:
            for r in range(len(q['A'])):
                for j in range(n):
                    ov = q['A'][r][j - off] if off <= j < off + b['n'] else 0.0
                    if abs(p['A'][row_off + r][j] - ov) > tol * max(1, abs(ov)):
                        problems.append('A[%d,%d]=%g but asset %s has %g' % (row_off + r, j, p['A'][row_off + r][j], b['asset'], ov))
            row_off += len(q['A'])
        off += b['n']
    for g in range(n):
        if g not in byidx:
            if abs(p['c'][g]) > tol:
                problems.append('unmapped variable %d has cost %g' % (g, p['c'][g]))
            if any(abs(row[g]) > tol for row in p['A']):
                problems.append('unmapped variable %d occurs in a constraint' % g)
    # nodal rows
    pairs = {}
    for r in p['mapping']:
        if r['type'] == 'd' and r.get('node') is not None:
            df = r.get('disp_factor')
            pairs.setdefault((r['time_step'], r['node']), {}).setdefault(r['index'], 0.0)
            pairs[(r['time_step'], r['node'])][r['index']] += 1.0 if df is None else df
    nN = len(p['A']) - row_off
    mnr = [tuple(v) for v in p['map_nodal_restr']]
    if not (nN == len(mnr) == len(pairs) and set(mnr) == set(pairs) and p['cType'].endswith('N' * nN)):
        problems.append('nodal rows (%d) / map_nodal_restr (%d) / (node,step) pairs with dispatch (%d) not in bijection' % (nN, len(mnr), len(pairs)))
    else:
        base = len(p['A']) - nN
        for r, key in enumerate(mnr):
            for j in range(n):
                if abs(p['A'][base + r][j] - pairs[key].get(j, 0.0)) > tol:
                    problems.append('nodal row %d (%s) column %d is %g, mapping says %g' % (r, key, j, p['A'][base + r][j], pairs[key].get(j, 0.0)))
    if problems:
        return True, '; '.join(problems[:3])
    return False, 'assembled problem agrees with the assets\' own problems on the unshimmed code'
