"""C16 Scaled and structured assets are equivalent to what they wrap.

Scaled, fixed scale s (min_scale = max_scale = s): Q3 both directions between [ScaledAsset(base), market] and
[base with every right-hand quantity (capacities, size, levels, inflow, take volumes) multiplied by s/normalisation, market]:
same feasible dispatch, value_scaled = value_base - fix_costs * s * (active duration of the scaled asset).
Free scale: the scale is itself the LP variable sigma in [min_scale, max_scale]; the same embeddings with sigma symbolic show
F_free(x, sigma) <=> min <= sigma <= max /\\ F_base(sigma/S)(x) and the value identity for every sigma, hence the optimum is the best
over the allowed range.
Structured: Q3 both directions between Portfolio([StructuredAsset(inner), outer]) and the flat portfolio of the same assets
(inner windows clipped to the wrapper's), plus equal reported dispatch at the external node.
"""
import numpy as np
import z3

from .. import scen, common, sym, lpsem, lift, embed_lp, shapes, refmap, known
from ..sym import Sym, lift as zl, ratval

PROP = 'C16'


def _k(cid, **kw):
    return (cid, kw)


QUICK = [
    _k('scaled_fixed_storage', mode='fixed', base='storage', T=3),
    _k('scaled_fixed_transport', mode='fixed', base='transport', T=3),
    _k('scaled_fixed_contract_win', mode='fixed', base='contract', T=4, win=(1, 3)),
    _k('scaled_fixed_take', mode='fixed', base='take', T=3),
    _k('scaled_fixed_storage_base_window_only', mode='fixed', base='storage', T=4, win=(1, 3), wrap_win=None),
    _k('scaled_free_storage', mode='free', base='storage', T=3),
    _k('scaled_free_contract_mustrun', mode='free', base='mustrun', T=2),
    # normalisation below one: the variable bounds of the scaled asset must not be tighter than the scaled capacities
    _k('scaled_fixed_storage_norm_below_one', mode='fixed', base='storage', T=2, norm=0.5),
    _k('scaled_fixed_contract_norm_below_one', mode='fixed', base='contract', T=2, norm=0.25),
    _k('scaled_free_storage_norm_below_one', mode='free', base='storage', T=2, norm=0.5),
    _k('scaled_fixed_storage_discounted', mode='fixed', base='storage', T=3, freq='d', unit='h', wacc=True),
    _k('scaled_fixed_storage_discounted_base_only', mode='fixed', base='storage', T=3, freq='d', unit='h', wacc='base'),
    _k('scaled_free_contract_discounted', mode='free', base='contract', T=2, freq='d', unit='d', wacc=True),
    _k('scaled_cost_sample_own_window', mode='costs', shape='scaled', kw=dict(T=4, base='transport', win=(1, 3))),
    _k('scaled_fixed_plant', mode='fixed', base='plant', T=3),
    _k('scaled_fixed_storage_no_simult', mode='fixed', base='storage_no_simult', T=2),
    _k('structured', mode='struct', T=2),
    _k('structured_windows', mode='struct', T=3, inner_win=(0, 2), outer_win=(1, 3)),
    _k('structured_two_external_nodes', mode='struct', T=2, two_external=True),
    _k('structured_with_order_book_inside', mode='struct', T=3, inner_orderbook=True),
    _k('structured_end_only_windows', mode='struct', T=4, inner_win=(None, 3), outer_win=(None, 2)),
    _k('structured_start_only_windows', mode='struct', T=4, inner_win=(1, None), outer_win=(2, None)),
]
THOROUGH = QUICK + [
    _k('scaled_fixed_storage_day_unit', mode='fixed', base='storage', T=3, unit='d', freq='d'),
    _k('scaled_fixed_storage_win_straddle', mode='fixed', base='storage', T=3, win=(-1, 2)),
    _k('scaled_fixed_storage_B', mode='fixed', base='storage', T=2, level='B'),
    _k('scaled_free_transport', mode='free', base='transport', T=3),
    _k('scaled_free_take', mode='free', base='take', T=3),
    _k('structured_2int', mode='struct', T=2, two_internal=True),
    _k('structured_T4_inner_wider', mode='struct', T=4, inner_win=(-1, 5), outer_win=(1, 3)),
    # deeper variants of the quick cases: longer horizons, discounting with other bases
    _k('scaled_fixed_storage_T5', mode='fixed', base='storage', T=5),
    _k('scaled_free_storage_T4', mode='free', base='storage', T=4),
    _k('scaled_fixed_transport_discounted', mode='fixed', base='transport', T=3, freq='d', unit='h', wacc=True),
    _k('scaled_fixed_take_discounted_window', mode='fixed', base='take', T=4, win=(1, 4), freq='d', unit='d', wacc=True),
    _k('scaled_free_storage_discounted', mode='free', base='storage', T=3, freq='d', unit='d', wacc=True),
    _k('structured_with_order_book_inside_T4_windows', mode='struct', T=4, inner_orderbook=True, inner_win=(0, 3), outer_win=(1, 4)),
    _k('structured_two_external_nodes_T4', mode='struct', T=4, two_external=True),
]
BOUNDS = dict(quick='%s; T<=4; fixed scale: generic concrete scale/normalisation with symbolic base parameters; free scale: symbolic scale variable with generic concrete base parameters' % [c[0] for c in QUICK],
              thorough='%s; Level B (symbolic scale and parameters) for *_B' % [c[0] for c in THOROUGH])
OUTSIDE = ['ScaledAsset with a window narrower than its base asset (KF-C08-scaledwin)', 'StructuredAsset window over inner assets without own window (KF-C08-structwin)', 'LinkedAsset rows', 'scaled assets with internal variables beyond the crash (KF-C16-scaled-internal)']


def cases(tier, seed):
    lst = THOROUGH if tier == 'thorough' else QUICK
    out = [(cid, dict(kw)) for cid, kw in lst]
    # sequences of calls on the same objects (decided with C10's history machinery: the final problem equals that of fresh objects)
    # -- fixed costs of a scaled asset count over ITS window also in the second set-up on the same grid object
    out.append(('history_scaled_asset_with_own_window_set_up_again', common.delegated('c10', pf='wrappers', final='h', histories=[['same'], ['costs']])))
    return out


# ------------------------------------------------------------------------------------------------ scaled
class Scaler:
    """value source wrapper: capacities-like quantities are multiplied by a factor (s/S) for the scaled-base twin"""

    def __init__(self, D, factor, concrete=None):
        self.D = D
        self.f = factor
        self.concrete = concrete

    def q(self, name, default, **kw):
        if self.concrete is not None:
            v = self.D.coef(name, default)
        else:
            v = self.D(name, **kw)
        return v if self.f is None else v * self.f


def mk_base(D, base, T, tg, nA, nB, f, concrete, win, name):
    """base asset; f: None (original) or the factor s/S applied to every right-hand quantity"""
    eao = lift.import_eao()
    S = Scaler(D, f, concrete)
    s, e = shapes.window(tg, win) if win is not None else (None, None)
    if base == 'storage':
        size = S.q('b_size', 4.0, lo=0); st = S.q('b_start', 1.0, lo=0); en = S.q('b_end', 2.0, lo=0)
        if D.symbolic and concrete is None:
            D.assume(st <= size); D.assume(en <= size)
        return eao.assets.Storage(name, nodes=nA, size=size, cap_in=S.q('b_capin', 1.5, lo=0), cap_out=S.q('b_capout', 2.5, lo=0),
                                  start_level=st, end_level=en, eff_in=0.75, inflow=S.q('b_inflow', 0.25, lo=0),
                                  cost_in=D('b_cin', lo=0), cost_out=D('b_cout', lo=0), cost_store=D('b_cstore', lo=0), start=s, end=e)
    if base == 'transport':
        lo = S.q('b_min', 0.5, lo=0); hi = S.q('b_max', 2.0, lo=0)
        if D.symbolic and concrete is None:
            D.assume(lo <= hi)
        return eao.assets.Transport(name=name, nodes=[nA, nB], min_cap=lo, max_cap=hi, efficiency=0.5, costs_const=D('b_cc', lo=0), start=s, end=e)
    if base == 'contract':
        return eao.assets.SimpleContract(name=name, nodes=nA, price='r', min_cap=S.q('b_min', -1.5, hi=0), max_cap=S.q('b_max', 2.0, lo=0),
                                         extra_costs=D('b_ec', lo=0), start=s, end=e)
    if base == 'mustrun':
        lo = S.q('b_min', 1.0, lo=0); hi = S.q('b_max', 2.5, lo=0)
        return eao.assets.SimpleContract(name=name, nodes=nA, price='r', min_cap=lo, max_cap=hi, start=s, end=e)
    if base == 'plant':
        return eao.assets.Plant(name=name, nodes=[nA], price='r', min_cap=S.q('b_min', 1.0, lo=0), max_cap=S.q('b_max', 3.0, lo=0), min_runtime=2,
                                start_costs=D('b_sc', lo=0), running_costs=D('b_rc', lo=0), start=s, end=e)
    if base == 'storage_no_simult':
        size = S.q('b_size', 4.0, lo=0)
        return eao.assets.Storage(name, nodes=nA, size=size, cap_in=S.q('b_capin', 1.5, lo=0), cap_out=S.q('b_capout', 2.5, lo=0), start_level=0., end_level=0.,
                                  eff_in=0.75, no_simult_in_out=True, start=s, end=e)
    if base == 'take':
        return eao.assets.Contract(name=name, nodes=nA, price='r', min_cap=S.q('b_min', -1.0, hi=0), max_cap=S.q('b_max', 2.0, lo=0),
                                   max_take=shapes.mk_take(tg, 0, T, S.q('b_maxtake', 3.0, lo=0)),
                                   min_take=shapes.mk_take(tg, 0, T, S.q('b_mintake', -1.0, hi=0)), start=s, end=e)
    raise KeyError(base)


def build_scaled(D, mode, base, T, win=None, unit='h', freq='h', sigma=None, wrap_win='same', norm=2.0, wacc=False):
    """returns (pf_scaled, pf_base_scaled_quantities, tg, prices, factor term, fix cost rate, scale value/sigma)"""
    eao = lift.import_eao()
    tg = shapes.grid(T, freq, unit)
    nA, nB = shapes.nodes('A', 'B')
    prices = shapes.prices_for(D, ['p', 'q', 'r'], T)
    norm = D.coef('norm', norm, lo_strict=0)
    fixc = D('fixc', lo=0)
    if mode == 'fixed':
        s = D.coef('scale', 1.5, lo=0)
        mn = mx = s
        concrete = None
        f = s / norm
    else:
        mn = D.coef('scale_min', 0.5, lo=0); mx = D.coef('scale_max', 3.0, lo=0)
        concrete = True
        f = sigma / norm if sigma is not None else None
    # the base asset carries the window; the wrapper gets the same window (fix costs accrue over the active duration)
    def others():
        o = [shapes.mk_market(D, 'mA', nA, T, 'p')]
        if base == 'transport':
            o.append(shapes.mk_market(D, 'mB', nB, T, 'q'))
        return o
    b1 = mk_base(D, base, T, tg, nA, nB, None, concrete, win, 'base')
    ww = win if wrap_win == 'same' else wrap_win
    s_, e_ = shapes.window(tg, ww) if ww is not None else (None, None)
    if wacc:
        # the BASE asset carries the discount rate (its cash flows are discounted); the fixed costs are s x rate x active duration as the property
        # states.  wacc == 'base': the wrapper is created without a rate of its own (documented default 0) -- the base asset keeps its rate
        b1.wacc = D('wacc', lo=0)
    sa = eao.assets.ScaledAsset(name='sc', base_asset=b1, min_scale=mn, max_scale=mx, norm_scale=norm, fix_costs=fixc, start=s_, end=e_,
                                **(dict(wacc=b1.wacc) if wacc and wacc != 'base' else {}))
    pf_s = eao.portfolio.Portfolio([sa] + others())
    pf_b = None
    if f is not None:
        b2 = mk_base(D, base, T, tg, nA, nB, f, concrete, win, 'sc')
        if wacc:
            b2.wacc = D('wacc', lo=0)
        pf_b = eao.portfolio.Portfolio([b2] + others())
    return pf_s, pf_b, tg, prices, fixc, (mn, mx)


def active_duration(tg, win):
    tp, ends, dt, el = refmap.grid_facts(tg)
    if win is None:
        return sum(dt, 0)
    s, e = shapes.window(tg, win)
    return sum((dt[t] for t in range(tg.T) if s <= tp[t] < e), 0)


def run_case(case_id, tier, seed, mode, **kw):
    rec = lpsem.Rec(PROP, case_id)
    if mode == 'costs':
        # valuation through cost samples (robust target, SLP): the cost sample of the scaled asset is its cost vector (C17 machinery)
        from . import c17
        return c17.run_costs(rec, seed, kw['shape'], kw['kw'])
    if mode == 'struct':
        return run_struct(rec, seed, **kw)
    return run_scaled(rec, seed, mode, **kw)


def run_scaled(rec, seed, mode, base, T, win=None, unit='h', freq='h', level='A', wrap_win='same', norm=2.0, wacc=False):
    eao = lift.import_eao()
    sigma = Sym.var('sigma') if mode == 'free' else None

    def build(D):
        pf_s, pf_b, tg, prices, fixc, rng = build_scaled(D, mode, base, T, win, unit, freq, sigma, wrap_win, norm, wacc)
        if mode == 'free':
            D.assume(sigma >= rng[0]); D.assume(sigma <= rng[1])
        ops = pf_s.setup_optim_problem(prices, tg)
        opb = pf_b.setup_optim_problem(prices, tg)
        return pf_s, pf_b, tg, prices, fixc, rng, ops, opb
    res = lift.explore_build(build, level=level)
    rec.paths = len(res)
    validated = False
    for pi, (path, D) in enumerate(res):
        P = 'p%d' % pi
        if path.exc is not None:
            if common.is_rejection(path.exc):
                rec.rejected_paths += 1
                continue
            if base in ('plant', 'storage_no_simult') and known.is_open('KF-C16-scaled-internal'):
                rec.known_hits.append(('KF-C16-scaled-internal', P + '/crash', '%s: %s' % (type(path.exc).__name__, str(path.exc)[:80])))
                rec.obligations.append(dict(name=P + '/crash', verdict='sat', secs=0, form='crash'))
                continue
            common.crash_candidate(rec, P + '/crash', path, D, info=dict(kind='crash'))
            continue
        pf_s, pf_b, tg, prices, fixc, rng, ops, opb = path.result
        Ps, Pb = lpsem.LP(ops), lpsem.LP(opb)
        base_as = list(D.pre) + path.pc + sym.atom_constraints()
        ks = Ps.var_keys()
        scale_idx = [i for i, k in ks.items() if k[1] == 'scale']
        if len(scale_idx) != 1:
            rec.obligations.append(dict(name=P + '/scale_var', verdict='sat', secs=0, form='struct'))
            rec.candidates.append(dict(name=P + '/scale_var', env={}, info=dict(kind='scale_var'), form='struct'))
            continue
        si = scale_idx[0]
        dur = active_duration(tg, win if wrap_win == 'same' else wrap_win)
        x = Ps.mk_x('x')
        sval = zl(sigma) if mode == 'free' else zl(rng[0])
        # scaled -> base
        pin = [x[si] == sval]
        terms, missing = embed_lp.phi_by_keys(Ps, x, Pb)
        if missing:
            rec.obligations.append(dict(name=P + '/keys', verdict='sat', secs=0, form='struct'))
            rec.candidates.append(dict(name=P + '/keys', env={}, info=dict(kind='keys', missing=missing), form='struct'))
            continue
        fc = zl(fixc) * sval * ratval(dur)
        embed_lp.embed(rec, P + '/scaled2base', base_as, Ps, x, Pb, terms, rel='==', info=dict(kind='emb', dir='scaled2base'),
                       val_P=Ps.val(x) + fc, extra_assume=pin)
        # base -> scaled
        y = Pb.mk_x('y')
        terms2, missing2 = embed_lp.phi_by_keys(Pb, y, Ps, default=None)
        terms2 = [t if t is not None else sval for t in terms2]
        if missing2 != [si]:
            rec.obligations.append(dict(name=P + '/keys2', verdict='sat', secs=0, form='struct'))
            rec.candidates.append(dict(name=P + '/keys2', env={}, info=dict(kind='keys', missing=missing2), form='struct'))
            continue
        embed_lp.embed(rec, P + '/base2scaled', base_as, Pb, y, Ps, terms2, rel='==', info=dict(kind='emb', dir='base2scaled'),
                       val_Q=Ps.val(terms2) + fc)
        if mode == 'free':
            # the scale variable itself ranges over exactly [min_scale, max_scale]
            rec.prove(P + '/scale_range', base_as, z3.And(Ps.l[si] == zl(rng[0]), Ps.u[si] == zl(rng[1])), form='Q2', info=dict(kind='scale_range'))
        if not validated:
            from .. import obs
            names = list(D.names) + (['sigma'] if mode == 'free' else [])
            env = common.generic_point(base_as, names, seed)
            if env is not None:
                for nm in names:
                    env.setdefault(nm, 0.0)
                rec.validations.append(dict(env=env, lifted=obs.to_jsonable(dict(scaled=obs.problem_obs(ops), base=obs.problem_obs(opb)), env)))
                validated = True
    return rec.result()


# ------------------------------------------------------------------------------------------------ structured
def clip(w_in, w_out):
    if w_in is None:
        return w_out
    if w_out is None:
        return w_in
    # a side given on both levels is intersected; a side given on neither stays open (a side given on one level only: KF-C08-structwin)
    lo = None if w_in[0] is None and w_out[0] is None else max(w_in[0], w_out[0])
    hi = None if w_in[1] is None and w_out[1] is None else min(w_in[1], w_out[1])
    return (lo, hi)


def build_struct(D, T, inner_win=None, outer_win=None, two_internal=False, two_external=False, inner_orderbook=False):
    eao = lift.import_eao()
    # every inner asset carries a window when the wrapper has one (a wrapper window over window-less inner assets: KF-C08-structwin)
    sh = shapes.pf_structured(D, T=T, inner_win=inner_win, outer_win=outer_win, two_internal=two_internal, inner_win_all=True, two_external=two_external, inner_orderbook=inner_orderbook)
    tg = sh.tg
    nI, nE, nJ = shapes.nodes('I', 'E', 'J')
    # flat twin: same assets, inner windows clipped to the wrapper's window
    st = shapes.mk_storage(D, 'ist', nI, eff=0.75, win=clip(inner_win, outer_win), tg=tg)
    cw = clip(inner_win, outer_win)
    tr = shapes.mk_transport(D, 'itr', nI, nE, eff=0.5, win=cw, tg=tg)
    flat = [st, tr]
    if two_internal:
        flat.append(shapes.mk_transport(D, 'itr2', nJ, nI, eff=None, costs=False, win=cw, tg=tg))
        flat.append(shapes.mk_market(D, 'imk', nJ, T, 'q', win=cw, tg=tg))
    if inner_orderbook:
        flat.append(shapes.mk_orderbook(D, 'iob', nI, tg, ((0, 2, 2.0), (1, T, -1.5))))
    if two_external:
        (nF,) = shapes.nodes('F')
        flat.append(shapes.mk_transport(D, 'itrF', nI, nF, eff=None, win=cw, tg=tg))
    flat.append(shapes.mk_market(D, 'mE', nE, T, 'p'))
    if two_external:
        flat.append(shapes.mk_market(D, 'mF', nF, T, 'q'))
    return sh, eao.portfolio.Portfolio(flat)


def struct_rename(k):
    """structured key (asset 'struct', var_name 'disp__ist', t, node) -> flat key ('ist', 'disp', t)"""
    asset, vn, t, node = k
    if asset == 'struct' and '__' in vn:
        base, inner = vn.rsplit('__', 1)
        return (inner, base, t)
    return (asset, vn, t)


def run_struct(rec, seed, T, inner_win=None, outer_win=None, two_internal=False, two_external=False, inner_orderbook=False):
    eao = lift.import_eao()

    def build(D):
        sh, flat = build_struct(D, T, inner_win, outer_win, two_internal, two_external, inner_orderbook)
        ops = sh.portf.setup_optim_problem(sh.prices, sh.tg)
        xs = common.sym_x(len(ops.c), 'x')
        outs = eao.io.extract_output(sh.portf, ops, eao.optimization.Results(value=Sym.var('value'), x=xs, duals=None))
        opf = flat.setup_optim_problem(sh.prices, sh.tg)
        return sh, flat, ops, xs, outs, opf
    res = lift.explore_build(build, level='A')
    rec.paths = len(res)
    validated = False
    for pi, (path, D) in enumerate(res):
        P = 'p%d' % pi
        if path.exc is not None:
            if common.is_rejection(path.exc):
                rec.rejected_paths += 1
                continue
            common.crash_candidate(rec, P + '/crash', path, D, info=dict(kind='crash'))
            continue
        sh, flat, ops, xs, outs, opf = path.result
        Ps, Pf = lpsem.LP(ops), lpsem.LP(opf)
        base_as = list(D.pre) + path.pc + sym.atom_constraints()
        x = [zl(v) for v in xs]
        drop_node = lambda k: (k[0], k[1], k[2])
        terms, missing = embed_lp.phi_by_keys(Ps, x, Pf, rename_P=struct_rename, rename_Q=drop_node)
        y = Pf.mk_x('y')
        terms2, missing2 = embed_lp.phi_by_keys(Pf, y, Ps, rename_P=drop_node, rename_Q=struct_rename)
        if missing or missing2:
            rec.obligations.append(dict(name=P + '/keys', verdict='sat', secs=0, form='struct'))
            rec.candidates.append(dict(name=P + '/keys', env={}, info=dict(kind='keys', missing=[missing, missing2]), form='struct'))
            continue
        embed_lp.embed(rec, P + '/struct2flat', base_as, Ps, x, Pf, terms, rel='==', info=dict(kind='emb', dir='struct2flat'))
        embed_lp.embed(rec, P + '/flat2struct', base_as, Pf, y, Ps, terms2, rel='==', info=dict(kind='emb', dir='flat2struct'))
        # external dispatch: struct column at E == sum of the inner assets' columns at E in the flat portfolio
        xf = np.empty(Pf.n, dtype=object)
        for i, t_ in enumerate(terms):
            xf[i] = Sym(t_)
        outf = eao.io.extract_output(flat, opf, eao.optimization.Results(value=Sym.var('value'), x=xf, duals=None))
        assume = base_as + Ps.feas(x)
        ds, df = outs['dispatch'], outf['dispatch']
        ext_nodes = ['E'] + (['F'] if two_external else [])
        for en in ext_nodes:
            scol = [c for c in ds.columns if c.startswith('struct') and (c.endswith('(%s)' % en) or len(ext_nodes) == 1)]
            inner_cols = [c for c in df.columns if c.endswith('(%s)' % en) and not c.startswith('m' + en)]
            if len(flat.nodes) == 1:
                inner_cols = [c for c in df.columns if c != 'mE']
            for t in range(sh.tg.T):
                want = common.z3sum([df[c].values[t] for c in inner_cols])
                got = common.z3sum([ds[c].values[t] for c in scol])
                rec.prove(P + '/external_dispatch%s/%d' % ('' if en == 'E' else '_' + en, t), assume, got == want, form='Q1', info=dict(kind='external', t=t, node=en))
        if not validated:
            from .. import obs
            names = list(D.names) + ['x%d' % i for i in range(Ps.n)]
            env = common.generic_point(assume, names, seed)
            if env is not None:
                for nm in names:
                    env.setdefault(nm, 0.0)
                env.setdefault('value', 0.0)
                rec.validations.append(dict(env=env, lifted=obs.to_jsonable(dict(struct=obs.problem_obs(ops), flat=obs.problem_obs(opf),
                                                                                  out=obs.output_obs(outs)), env)))
                validated = True
    return rec.result()


# ------------------------------------------------------------------------------------------------ pristine
def observe(case, kwargs, env, rq):
    from .. import obs
    eao = lift.import_eao()
    D = lift.Domain(theta=env)
    kw = dict(kwargs)
    mode = kw.pop('mode')
    kw.pop('level', None)
    if mode == 'costs':
        from . import c17
        return c17.observe(case, dict(kind='costs', shape=kw['shape'], kw=kw['kw']), env, rq)
    if mode == 'struct':
        sh, flat = build_struct(D, **kw)
        ops = sh.portf.setup_optim_problem(sh.prices, sh.tg)
        xs = common.concrete_x(env, len(ops.c))
        outs = eao.io.extract_output(sh.portf, ops, eao.optimization.Results(value=float(env.get('value', 0.0)), x=xs, duals=None))
        opf = flat.setup_optim_problem(sh.prices, sh.tg)
        o = dict(struct=obs.problem_obs(ops), flat=obs.problem_obs(opf), out=obs.output_obs(outs))
        if rq.get('kind') == 'replay':
            o['v_P'], o['s_P'] = embed_lp.optimum(ops)
            o['v_Q'], o['s_Q'] = embed_lp.optimum(opf)
            rs, rf = ops.optimize(), opf.optimize()
            if not isinstance(rs, str) and not isinstance(rf, str):
                o['disp_struct'] = obs.output_obs(eao.io.extract_output(sh.portf, ops, rs))['dispatch']
        return o
    sigma = float(env.get('sigma', 1.0)) if mode == 'free' else None
    pf_s, pf_b, tg, prices, fixc, rng = build_scaled(D, mode, kw['base'], kw['T'], kw.get('win'), kw.get('unit', 'h'), kw.get('freq', 'h'), sigma, kw.get('wrap_win', 'same'), kw.get('norm', 2.0), kw.get('wacc', False))
    ops = pf_s.setup_optim_problem(prices, tg)
    opb = pf_b.setup_optim_problem(prices, tg)
    o = dict(scaled=obs.problem_obs(ops), base=obs.problem_obs(opb))
    if rq.get('kind') == 'replay':
        s = sigma if mode == 'free' else float(rng[0])
        # pin the scale to s in the scaled problem and compare real optima
        Ps = lpsem.LP(ops)
        si = [i for i, k in Ps.var_keys().items() if k[1] == 'scale'][0]
        ops.l[si] = s; ops.u[si] = s
        o['v_P'], o['s_P'] = embed_lp.optimum(ops)
        vb, sb = embed_lp.optimum(opb)
        dur = float(active_duration(tg, kw.get('win') if kw.get('wrap_win', 'same') == 'same' else kw.get('wrap_win')))
        o['v_Q'] = None if vb is None else vb - float(fixc) * s * dur
        o['s_Q'] = sb
        o['scale_bounds'] = [float(np.asarray(pf_s.setup_optim_problem(prices, tg).l)[si]), float(np.asarray(pf_s.setup_optim_problem(prices, tg).u)[si]), float(rng[0]), float(rng[1])]
    return o


def judge(case, kwargs, cand, ans):
    info = cand.get('info', {})
    if cand.get('form') == 'crash' or 'crash' in info:
        return (True, 'raises on an in-domain input: ' + ans['error'][:200]) if 'error' in ans else (False, 'no exception')
    if 'error' in ans:
        return None, ans['error']
    if kwargs.get('mode') == 'costs':
        from . import c17
        return c17.judge(case, dict(kind='costs', shape=kwargs['shape'], kw=kwargs['kw']), cand, ans)
    o = ans['obs']
    if info.get('kind') in ('keys', 'scale_var'):
        return True, 'variables cannot be matched by meaning: %s' % info.get('missing')
    if info.get('kind') == 'scale_range':
        b = o['scale_bounds']
        return (abs(b[0] - b[2]) > 1e-9 or abs(b[1] - b[3]) > 1e-9), 'scale variable bounds [%g,%g], allowed range [%g,%g]' % tuple(b)
    what = ('structured', 'flat') if kwargs.get('mode') == 'struct' else ('scaled asset at scale s', 'base asset with quantities times s/S, less fixed costs')
    return embed_lp.judge_values(o.get('v_P'), o.get('s_P'), o.get('v_Q'), o.get('s_Q'), '==', what=what)
