"""C12 Time bookkeeping: the main time unit is irrelevant; limits and per-time costs follow the actual step length.

(i)  Unit change: the same portfolio is built on two grids that differ only in main_time_unit; every rate (capacities, inflow, holding
     cost, ramp, last dispatch, running costs, consumption if on, fixed costs) of the second is kappa x the symbol of the first
     (kappa = exact ratio of the units), every duration (minimum runtime/downtime, time already running/off, maximum holding time) is
     re-expressed with exactly representable values.  Q2: the two lifted problems are identical term by term (c, l, u, A, b, cType,
     mapping) -- hence same value and volumes -- including the discount atoms; also for split problems.
(ii) Irregular steps: on grids over the CET / US-Eastern daylight-saving days (daily steps of 23 h / 25 h) and calendar months, the
     assembled problem equals the reference model whose step lengths and elapsed times are recomputed from the UTC instants of the
     grid points (Q3 two-way embeddings of C02): volume limits = rate x actual step length, holding cost and discounting follow the
     real elapsed time, totals = rate x elapsed time.
"""
import numpy as np
import pandas as pd
import z3

from .. import scen, common, sym, lpsem, lift, shapes, obs, embed_ref
from ..sym import Sym, lift as zl
from .c10 import compare

PROP = 'C12'
UNIT_H = {'h': 1.0, 'd': 24.0, 'min': 1.0 / 60.0}

IRREGULAR = [
    ('cet_spring_daily', 'contract_storage', dict(T=3, unit='h', wacc=True, freq=('d', '2021-03-27', '2021-03-30', 'CET'))),
    ('cet_autumn_daily_day_unit', 'contract_storage', dict(T=3, unit='d', wacc=True, freq=('d', '2021-10-30', '2021-11-02', 'CET'))),
    ('us_eastern_spring_daily', 'two_node', dict(T=3, unit='h', freq=('d', '2021-03-13', '2021-03-16', 'US/Eastern'))),
    ('months', 'contract_storage', dict(T=3, unit='d', wacc=True, freq=('MS', '2021-01-01', '2021-04-01', None))),
    ('months_onevar_holding_cost', 'contract_storage', dict(T=3, unit='d', eff=None, wacc=True, storage_kw=dict(costs='store'), freq=('MS', '2021-01-01', '2021-04-01', None))),
    ('cet_spring_take', 'contract_take', dict(T=3, unit='h', take=(0, 3), freq=('d', '2021-03-27', '2021-03-30', 'CET'))),
    ('cet_spring_hourly', 'contract_storage', dict(T=4, unit='h', freq=('h', '2021-03-28 00:00', '2021-03-28 05:00', 'CET'))),
]
UNITS_QUICK = [('h', 'd'), ('h', 'min')]
UNITS_THOROUGH = [('h', 'd'), ('h', 'min'), ('d', 'min'), ('d', 'h')]
UNIT_SHAPES = ['storage', 'transport_take', 'plant', 'scaled', 'split', 'msd', 'linked', 'plant_profiles', 'chp', 'chp_heat_profiles', 'split_take_plant', 'coarse_contract', 'coarse_transport_storage']
BOUNDS = dict(quick='unit pairs %s x shapes %s (grids 6h/12h/d so that durations are exactly representable); irregular grids %s' % (UNITS_QUICK, UNIT_SHAPES, [c[0] for c in IRREGULAR]),
              thorough='unit pairs %s' % UNITS_THOROUGH)
OUTSIDE = ['construction of the grid points by pandas (date_range, DST rules): executed concretely', 'durations that are not exactly representable in both units (EAO rounds them up, documented)']
TRUSTED = ['vf/refmodel.py for (ii)']


def cases(tier, seed):
    out = []
    for u1, u2 in (UNITS_THOROUGH if tier == 'thorough' else UNITS_QUICK):
        for shp in UNIT_SHAPES:
            out.append(('unit_%s_%s_%s' % (u1, u2, shp), dict(kind='unit', u1=u1, u2=u2, shp=shp)))
    for cid, shape, kw in IRREGULAR:
        out.append(('irregular_' + cid, dict(kind='irregular', shape=shape, kw=kw)))
    # coarse-frequency assets on a grid with unequal fine steps: volumes follow each minor step's own length (C13 machinery)
    # maximum holding time on irregular grids: elapsed time, not a number of steps (C05 machinery: soundness and completeness of the windows)
    from . import c05
    for cid, kw, level, opts in (c05.MSD_IRREGULAR if tier == 'thorough' else c05.MSD_IRREGULAR[:3]):
        # empty start and no inflow only: the other region is C05's open finding KF-C05-msd, reported by the C05 check
        out.append(('irregular_' + cid, dict(kind='c05', shape='contract_storage', kw=dict(kw), level=level, opts=dict(opts, outside_known_only=True))))
    # the volume limit of a coarse step is rate x the coarse step's length whatever form the rate is given in (C19's form machinery)
    for wf in ('coarse_contract_caps_column_vs_scalar', 'coarse_contract_caps_dict_vs_scalar'):
        out.append(('forms_' + wf, dict(kind='forms', which=wf)))
    out.append(('irregular_coarse_contract_dst', dict(kind='coarse13', opt='coarse', kind13='contract', T=4, coarse='2d', freq=('d', '2021-03-27', '2021-03-31', 'CET'))))
    out.append(('irregular_coarse_transport_dst', dict(kind='coarse13', opt='coarse', kind13='transport', T=4, coarse='2d', eff=0.5, freq=('d', '2021-10-30', '2021-11-03', 'CET'))))
    return out


# ------------------------------------------------------------------------------------------------ unit change
def build_unit(D, shp, unit):
    """rates are 'per hour' symbols times kappa(unit); durations are hours / kappa(unit)"""
    eao = lift.import_eao()
    k = UNIT_H[unit]
    rate = lambda name, **kw: D(name, **kw) * k
    dur = lambda hours: hours / k
    nA, nB = shapes.nodes('A', 'B')
    if shp in ('storage', 'msd', 'split'):
        T, freq = (4, '12h') if shp != 'msd' else (4, '6h')
        tg = shapes.grid(T, freq, unit)
        w = D('wacc', lo=0)
        size = D('size', lo=0); st = D('start', lo=0); en = D('end', lo=0)
        D.assume(st <= size); D.assume(en <= size)
        kw = dict(max_store_duration=dur(12.0)) if shp == 'msd' else {}
        if shp == 'split':
            en = st
        s = eao.assets.Storage('sto', nodes=nA, size=size, cap_in=rate('capin', lo=0), cap_out=rate('capout', lo=0), start_level=st, end_level=en,
                               eff_in=(0.75 if shp != 'msd' else 1.), inflow=rate('inflow', lo=0) if shp != 'msd' else 0.,
                               cost_in=D('cin', lo=0) if shp != 'msd' else 0., cost_out=D('cout', lo=0) if shp != 'msd' else 0.,
                               cost_store=rate('cstore', lo=0), wacc=w, **kw)
        m = eao.assets.SimpleContract(name='mkt', nodes=nA, price='p', min_cap=rate('mmin', hi=0), max_cap=rate('mmax', lo=0), extra_costs=D('mec', lo=0), wacc=w)
        pf = eao.portfolio.Portfolio([m, s])
        prices = shapes.prices_for(D, ['p'], T)
    elif shp == 'transport_take':
        T = 3
        tg = shapes.grid(T, '12h', unit)
        w = D('wacc', lo=0)
        lo = rate('tmin', lo=0); hi = rate('tmax', lo=0)
        D.assume(lo <= hi)
        tr = eao.assets.ExtendedTransport(name='tr', nodes=[nA, nB], min_cap=lo, max_cap=hi, efficiency=0.5, costs_const=D('tcc', lo=0), wacc=w,
                                          max_take=shapes.mk_take(tg, 0, 2, D('ttake', lo=0)))
        ct = eao.assets.Contract(name='ct', nodes=nA, price='p', min_cap=rate('cmin', hi=0), max_cap=rate('cmax', lo=0), wacc=w,
                                 min_take=shapes.mk_take(tg, 1, 5, D('ctake', hi=0)))
        mB = eao.assets.SimpleContract(name='mB', nodes=nB, price='q', min_cap=rate('bmin', hi=0), max_cap=rate('bmax', lo=0), wacc=w)
        pf = eao.portfolio.Portfolio([ct, tr, mB])
        prices = shapes.prices_for(D, ['p', 'q'], T)
    elif shp == 'plant':
        T = 4
        tg = shapes.grid(T, '6h', unit)
        mn = rate('pmin', lo_strict=0); mx = rate('pmax', lo=0)
        D.assume(mn <= mx)
        nG = shapes.nodes('G')[0]
        pl = eao.assets.Plant(name='pl', nodes=[nA, nG], price='p', min_cap=mn, max_cap=mx, ramp=rate('ramp', lo_strict=0), last_dispatch=rate('last', lo=0),
                              min_runtime=dur(12.0), min_downtime=dur(12.0), time_already_running=dur(6.0), start_costs=D('sc', lo=0),
                              running_costs=rate('rc', lo=0), start_fuel=D('sf', lo=0), fuel_efficiency=0.5, consumption_if_on=rate('cio', lo=0))
        mA = eao.assets.SimpleContract(name='mA', nodes=nA, price='q', min_cap=rate('amin', hi=0), max_cap=rate('amax', lo=0))
        mG = eao.assets.SimpleContract(name='mG', nodes=nG, price='g', min_cap=rate('gmin', hi=0), max_cap=rate('gmax', lo=0))
        pf = eao.portfolio.Portfolio([pl, mA, mG])
        prices = shapes.prices_for(D, ['p', 'q', 'g'], T)
    elif shp == 'scaled':
        T = 3
        tg = shapes.grid(T, '12h', unit)
        size = D('size', lo=0); st = D('start', lo=0)
        D.assume(st <= size)
        b = eao.assets.Storage('base', nodes=nA, size=size, cap_in=rate('capin', lo=0), cap_out=rate('capout', lo=0), start_level=st, end_level=st,
                               eff_in=0.75, inflow=rate('inflow', lo=0))
        sa = eao.assets.ScaledAsset(name='sc', base_asset=b, min_scale=0., max_scale=D('smax', lo=0), norm_scale=2.0, fix_costs=rate('fixc', lo=0))
        m = eao.assets.SimpleContract(name='mkt', nodes=nA, price='p', min_cap=rate('mmin', hi=0), max_cap=rate('mmax', lo=0))
        pf = eao.portfolio.Portfolio([sa, m])
        prices = shapes.prices_for(D, ['p'], T)
    elif shp == 'linked':
        # LinkedAsset: time_back / time_forward / asset2_time_already_running are durations in the main time unit
        T = 4
        tg = shapes.grid(T, '6h', unit)
        nP = shapes.nodes('P')[0]
        def plant(nm, price, **kw):
            mn = rate(nm + '_min', lo_strict=0); mx = rate(nm + '_max', lo=0)
            D.assume(mn <= mx)
            return eao.assets.Plant(name=nm, nodes=[nP], price=price, min_cap=mn, max_cap=mx, start_costs=D(nm + '_sc', lo=0),
                                    running_costs=rate(nm + '_rc', lo=0), **kw)
        ga = plant('ga', 'p')
        gb = plant('gb', 'q', min_runtime=dur(12.0), time_already_running=dur(6.0))
        la = eao.portfolio.LinkedAsset(eao.portfolio.Portfolio([ga, gb]), asset1_variable=('ga', 'disp', 'P'), asset2_variable=('gb', 'bool_on', None),
                                       name='link', nodes=nP, time_back=dur(12.0), time_forward=dur(6.0), asset2_time_already_running=dur(6.0))
        m = eao.assets.SimpleContract(name='mP', nodes=nP, price='r', min_cap=rate('mmin', hi=0), max_cap=rate('mmax', lo=0))
        pf = eao.portfolio.Portfolio([la, m])
        prices = shapes.prices_for(D, ['p', 'q', 'r'], T)
    elif shp == 'chp_heat_profiles':
        # CHP with start / shutdown profiles for power AND heat (rates per grid step; ramp_freq = grid frequency)
        T = 4
        tg = shapes.grid(T, '6h', unit)
        mn = rate('pmin', lo_strict=0); mx = rate('pmax', lo=0)
        D.assume(mn <= mx)
        nH = shapes.nodes('H')[0]
        v = {k_: rate(k_, lo=0) for k_ in ('sl', 'su', 'dl', 'du', 'slh', 'suh', 'dlh', 'duh')}
        for a_, b_ in (('sl', 'su'), ('dl', 'du'), ('slh', 'suh'), ('dlh', 'duh')):
            D.assume(v[a_] <= v[b_])
        D.assume(v['su'] <= mx); D.assume(v['du'] <= mx)
        pl = eao.assets.CHPAsset(name='pl', nodes=[nA, nH], price='p', min_cap=mn, max_cap=mx, start_costs=D('sc', lo=0), running_costs=rate('rc', lo=0),
                                 conversion_factor_power_heat=0.25, max_share_heat=2.0, time_already_off=dur(6.0), ramp_freq='6h',
                                 start_ramp_lower_bounds=[v['sl']], start_ramp_upper_bounds=[v['su']], shutdown_ramp_lower_bounds=[v['dl']], shutdown_ramp_upper_bounds=[v['du']],
                                 start_ramp_lower_bounds_heat=[v['slh']], start_ramp_upper_bounds_heat=[v['suh']],
                                 shutdown_ramp_lower_bounds_heat=[v['dlh']], shutdown_ramp_upper_bounds_heat=[v['duh']])
        assets = [pl, eao.assets.SimpleContract(name='mA', nodes=nA, price='q', min_cap=rate('amin', hi=0), max_cap=rate('amax', lo=0)),
                  eao.assets.SimpleContract(name='mH', nodes=nH, price='g', min_cap=rate('hmin', hi=0), max_cap=rate('hmax', lo=0))]
        pf = eao.portfolio.Portfolio(assets)
        prices = shapes.prices_for(D, ['p', 'q', 'g'], T)
    elif shp == 'split_take_plant':
        # split optimisation of assets that read the main time unit themselves: take restriction (prorated), plant durations, discounting
        T = 4
        tg = shapes.grid(T, '12h', unit)
        w = D('wacc', lo=0)
        ct = eao.assets.Contract(name='ct', nodes=nA, price='p', min_cap=rate('cmin', hi=0), max_cap=rate('cmax', lo=0), wacc=w,
                                 max_take=shapes.mk_take(tg, 0, 4, D('ctake', lo=0)))
        mn = rate('pmin', lo_strict=0); mx = rate('pmax', lo=0)
        D.assume(mn <= mx)
        pl = eao.assets.Plant(name='pl', nodes=[nA], price='q', min_cap=mn, max_cap=mx, min_runtime=dur(24.0), start_costs=D('sc', lo=0), running_costs=rate('rc', lo=0), wacc=w)
        m = eao.assets.SimpleContract(name='mkt', nodes=nA, price='g', min_cap=rate('mmin', hi=0), max_cap=rate('mmax', lo=0), wacc=w)
        pf = eao.portfolio.Portfolio([ct, pl, m])
        prices = shapes.prices_for(D, ['p', 'q', 'g'], T)
    elif shp in ('plant_profiles', 'chp'):
        T = 4
        tg = shapes.grid(T, '6h', unit)
        heat = shp == 'chp'
        mn = rate('pmin', lo_strict=0); mx = rate('pmax', lo=0)
        D.assume(mn <= mx)
        nH = shapes.nodes('H')[0]
        kw = {}
        if not heat:
            # start / shutdown profiles given per grid step (ramp_freq = grid frequency): rates like the capacities
            lo0, hi0, lo1, hi1 = rate('sr_lo0', lo=0), rate('sr_hi0', lo=0), rate('sr_lo1', lo=0), rate('sr_hi1', lo=0)
            sdl, sdh = rate('sd_lo0', lo=0), rate('sd_hi0', lo=0)
            for a_, b_ in ((lo0, hi0), (lo1, hi1), (sdl, sdh), (hi0, mx), (hi1, mx), (sdh, mx)):
                D.assume(a_ <= b_)
            kw.update(start_ramp_lower_bounds=[lo0, lo1], start_ramp_upper_bounds=[hi0, hi1], shutdown_ramp_lower_bounds=[sdl],
                      shutdown_ramp_upper_bounds=[sdh], ramp_freq='6h', ramp=rate('ramp', lo_strict=0), time_already_off=dur(6.0))
            pl = eao.assets.Plant(name='pl', nodes=[nA], price='p', min_cap=mn, max_cap=mx, start_costs=D('sc', lo=0), running_costs=rate('rc', lo=0), **kw)
        else:
            pl = eao.assets.CHPAsset(name='pl', nodes=[nA, nH], price='p', min_cap=mn, max_cap=mx, start_costs=D('sc', lo=0), running_costs=rate('rc', lo=0),
                                     conversion_factor_power_heat=0.25, max_share_heat=2.0, ramp=rate('ramp', lo_strict=0), last_dispatch=rate('last', lo=0),
                                     min_downtime=dur(12.0), time_already_running=dur(12.0))
        assets = [pl, eao.assets.SimpleContract(name='mA', nodes=nA, price='q', min_cap=rate('amin', hi=0), max_cap=rate('amax', lo=0))]
        if heat:
            assets.append(eao.assets.SimpleContract(name='mH', nodes=nH, price='g', min_cap=rate('hmin', hi=0), max_cap=rate('hmax', lo=0)))
        pf = eao.portfolio.Portfolio(assets)
        prices = shapes.prices_for(D, ['p', 'q', 'g'], T)
    elif shp in ('coarse_contract', 'coarse_transport_storage'):
        # assets with an own, coarser frequency (one day on a 12-hour grid): the coarse step lengths are in the grid's main time unit as well
        T = 4
        tg = shapes.grid(T, '12h', unit)
        w = D('wacc', lo=0)
        if shp == 'coarse_contract':
            co = eao.assets.Contract(name='co', nodes=nA, price='p', min_cap=rate('cmin', hi=0), max_cap=rate('cmax', lo=0), extra_costs=D('cec', lo=0), wacc=w, freq='d',
                                     max_take=shapes.mk_take(tg, 0, 4, D('ctake', lo=0)))
            assets = [co, eao.assets.SimpleContract(name='mkt', nodes=nA, price='q', min_cap=rate('mmin', hi=0), max_cap=rate('mmax', lo=0), wacc=w)]
        else:
            tr = eao.assets.Transport(name='tr', nodes=[nA, nB], min_cap=0., max_cap=rate('tmax', lo=0), efficiency=0.5, costs_const=D('tcc', lo=0), wacc=w, freq='d')
            st = eao.assets.Storage('sto', nodes=nB, size=D('size', lo=0), cap_in=rate('capin', lo=0), cap_out=rate('capout', lo=0), eff_in=0.75,
                                    cost_in=D('cin', lo=0), wacc=w, freq='d')
            assets = [eao.assets.SimpleContract(name='mA', nodes=nA, price='p', min_cap=rate('amin', hi=0), max_cap=rate('amax', lo=0), wacc=w), tr, st,
                      eao.assets.SimpleContract(name='mB', nodes=nB, price='q', min_cap=rate('bmin', hi=0), max_cap=rate('bmax', lo=0), wacc=w)]
        pf = eao.portfolio.Portfolio(assets)
        prices = shapes.prices_for(D, ['p', 'q'], T)
    else:
        raise KeyError(shp)
    if shp in ('split', 'split_take_plant'):
        return pf.setup_split_optim_problem(pd.DataFrame(prices), tg, interval_size='d')
    return pf.setup_optim_problem(prices, tg)


def _c13_kw(kw):
    kw = dict(kw)
    kw['kind'] = kw.pop('kind13')
    return kw


def run_case(case_id, tier, seed, kind, **kw):
    if kind == 'coarse13':
        from . import c13
        res = c13.run_case(case_id, tier, seed, **_c13_kw(kw))
        res['prop'] = PROP
        return res
    if kind == 'forms':
        from . import c19
        res = c19.run_forms(lpsem.Rec(PROP, case_id), seed, **kw)
        res['prop'] = PROP
        return res
    if kind == 'c05':
        from . import c05
        res = c05.run_case(case_id, tier, seed, **kw)
        res['prop'] = PROP
        return res
    rec = lpsem.Rec(PROP, case_id)
    if kind == 'irregular':
        return run_irregular(rec, seed, **kw)
    return run_unit(rec, seed, **kw)


def run_unit(rec, seed, u1, u2, shp):
    def build(D):
        return build_unit(D, shp, u1), build_unit(D, shp, u2)
    res = lift.explore_build(build, level='A')
    rec.paths = len(res)
    validated = False
    for pi, (path, D) in enumerate(res):
        P = 'p%d' % pi
        if path.exc is not None:
            if common.is_rejection(path.exc):
                rec.rejected_paths += 1
                continue
            common.crash_candidate(rec, P + '/crash', path, D, info=dict(kind='crash'))
            continue
        a, b = path.result
        base = list(D.pre) + path.pc + sym.atom_constraints()
        if rec.vacuity(P, base) is None:
            continue
        pairs = list(zip(a.ops, b.ops)) if hasattr(a, 'ops') else [(a, b)]
        if hasattr(a, 'ops') and len(a.ops) != len(b.ops):
            pairs = []
            rec.obligations.append(dict(name=P + '/intervals', verdict='sat', secs=0, form='Q2'))
            rec.candidates.append(dict(name=P + '/intervals', env={}, info=dict(kind='intervals'), form='struct'))
        rec.twin(P + '/identical', base, z3.BoolVal(False))
        for k_, (x_, y_) in enumerate(pairs):
            goals = compare(rec, P, base, x_, y_)
            nm = P + '/identical/%d' % k_
            if not goals:
                rec.obligations.append(dict(name=nm, verdict='unsat', secs=0, form='Q2'))
                rec.distinct.add(nm)
                if len(rec.samples) < 3:
                    rec.samples.append(dict(case=rec.case_id, obligation=nm, verdict='unsat (term-by-term identical incl. discount atoms)'))
            else:
                rec.prove_each(nm, base, [(lab, g, dict(kind='identical', label=lab)) for lab, g in goals], form='Q2')
        if not validated:
            env = common.generic_point(base, D.names, seed)
            if env is not None:
                for n_ in D.names:
                    env.setdefault(n_, 0.0)
                la = obs.problem_obs(a) if not hasattr(a, 'ops') else [obs.problem_obs(o) for o in a.ops]
                rec.validations.append(dict(env=env, lifted=obs.to_jsonable(dict(first=la), env)))
                validated = True
    return rec.result()


def run_irregular(rec, seed, shape, kw):
    res = scen.explore(shape, kw, level='A', with_output=False)
    rec.paths = len(res)
    validated = False
    for pi, (path, D) in enumerate(res):
        P = 'p%d' % pi
        if path.exc is not None:
            if common.is_rejection(path.exc):
                rec.rejected_paths += 1
                continue
            common.crash_candidate(rec, P + '/crash', path, D, info=dict(kind='crash'))
            continue
        sc = path.result
        spec, R, lp = embed_ref.check(rec, P, D, path, sc.sh, sc.op, extra_info=dict(kind='irregular'))
        # totals = rate x elapsed time: sum of the per-step upper limits of the market contract
        from fractions import Fraction
        tot = sum(spec['dt_frac'], Fraction(0))
        tp, ends, dt_, el = __import__('vf.refmap', fromlist=['x']).grid_facts(sc.sh.tg)
        us = __import__('vf.refmap', fromlist=['x']).UNIT_S[sc.sh.tg.main_time_unit]
        whole = Fraction(int(round((sc.sh.tg.end - sc.sh.tg.start).total_seconds())), us)
        ok = tot == whole
        nm = P + '/steps_add_up_to_horizon'
        rec.obligations.append(dict(name=nm, verdict='unsat' if ok else 'sat', secs=0, form='Q2'))
        rec.distinct.add(nm)
        if not validated:
            validated = scen.validation_request(rec, sc, D, path, seed)
    return rec.result()


def observe(case, kwargs, env, rq):
    D = lift.Domain(theta=env)
    kw = dict(kwargs)
    kind = kw.pop('kind')
    if kind == 'coarse13':
        from . import c13
        return c13.observe(case, _c13_kw(kw), env, rq)
    if kind == 'c05':
        from . import c05
        return c05.observe(case, kw, env, rq)
    if kind == 'forms':
        from . import c19
        return c19.observe(case, kwargs, env, rq)
    if kind == 'irregular':
        sc = scen.run(D, kw['shape'], kw['kw'], None, False, env=env)
        if rq.get('kind') != 'replay':
            return scen.observation(sc)
        return embed_ref.observe(sc.sh, sc.op, env, rq)
    a = build_unit(D, kw['shp'], kw['u1'])
    o = dict(first=obs.problem_obs(a) if not hasattr(a, 'ops') else [obs.problem_obs(x) for x in a.ops])
    if rq.get('kind') == 'replay':
        b = build_unit(D, kw['shp'], kw['u2'])
        o['second'] = obs.problem_obs(b) if not hasattr(b, 'ops') else [obs.problem_obs(x) for x in b.ops]
    return o


def judge(case, kwargs, cand, ans):
    info = cand.get('info', {})
    if cand.get('form') == 'crash' or 'crash' in info:
        return (True, 'raises on an in-domain input: ' + ans['error'][:200]) if 'error' in ans else (False, 'no exception')
    if 'error' in ans:
        return None, ans['error']
    if kwargs.get('kind') == 'coarse13':
        from . import c13
        return c13.judge(case, _c13_kw({k: v for k, v in kwargs.items() if k != 'kind'}), cand, ans)
    if kwargs.get('kind') == 'forms':
        from . import c19
        return c19.judge(case, kwargs, cand, ans)
    if kwargs.get('kind') == 'c05':
        from . import c05
        return c05.judge(case, {k: v for k, v in kwargs.items() if k != 'kind'}, cand, ans)
    if kwargs.get('kind') == 'irregular':
        return embed_ref.judge(cand, ans)
    from .. import replay
    o = ans['obs']
    d = replay.diff(o['first'], o['second'])
    if d:
        return True, 'the problems for main time unit %s and %s differ: %s' % (kwargs['u1'], kwargs['u2'], d)
    return False, 'problems identical on the unshimmed code'
