"""C05 Storage physics: level within [0,size], ends at end level, rates respected, reported truly; MIP options; blocks.

Physical quantities are defined by the harness from the *meaning* of the storage's dispatch variables
  charge_t = -x_in,t (or max(0,-x_t)),  discharge_t = x_out,t (or max(0,x_t)),
  level_t  = start + sum_{s<=t, s in window}(eff*charge_s - discharge_s + inflow*dt_s)
Q1 (for every feasible x of the assembled portfolio problem): 0 <= level_t <= size, level_last = end, charge_t <= cap_in*dt_t,
discharge_t <= cap_out*dt_t;  reported fill level / charge / discharge (real extract_output, Storage.fill_level) equal
the physical ones (EAO reports discharge with a negative sign - accepted as convention);
no_simult_in_out: never charge_t>0 and discharge_t>0;  max_store_duration: no window of consecutive steps whose duration
exceeds the limit has level>0 throughout;  block_size: the physical level bounds hold in every block.
"""
import numpy as np
import pandas as pd
import z3

from .. import scen, common, sym, lpsem, lift, known
from ..sym import Sym, lift as zl

PROP = 'C05'
SHAPE_OF = {}


def _c(cid, shape, kw, level='B', opts=None):
    SHAPE_OF[cid] = shape
    return (cid, kw, level, opts or {})


# maximum holding time is elapsed time, not a number of steps: grids with steps of 23 h / 24 h / 25 h and calendar months
MSD_IRREGULAR = [
    _c('max_duration_dst_47h_from_24h_day', 'contract_storage', dict(T=4, eff=None, unit='h', freq=('d', '2021-03-27', '2021-03-31', 'CET'), storage_kw=dict(max_store_duration=47, costs=False)), 'A', dict(msd=47)),
    _c('max_duration_dst_47h_from_23h_day', 'contract_storage', dict(T=4, eff=None, unit='h', freq=('d', '2021-03-28', '2021-04-01', 'CET'), storage_kw=dict(max_store_duration=47, costs=False)), 'A', dict(msd=47)),
    _c('max_duration_months_59d', 'contract_storage', dict(T=4, eff=None, unit='d', freq=('MS', '2021-01-01', '2021-05-01', None), storage_kw=dict(max_store_duration=59, costs=False)), 'A', dict(msd=59)),
    _c('max_duration_autumn_49h', 'contract_storage', dict(T=4, unit='h', freq=('d', '2021-10-30', '2021-11-03', 'CET'), storage_kw=dict(max_store_duration=49)), 'A', dict(msd=49)),
]
QUICK = [
    _c('basic_eff', 'contract_storage', dict(T=3)),
    _c('basic_onevar', 'contract_storage', dict(T=3, eff=None, storage_kw=dict(costs=False))),
    _c('halfhour_day_unit', 'contract_storage', dict(T=3, freq='30min', unit='d', wacc=True)),
    _c('window_inside', 'contract_storage', dict(T=4, win_s=(1, 3))),
    _c('window_straddle', 'contract_storage', dict(T=3, win_s=(-1, 2))),
    _c('window_last_step_only', 'contract_storage', dict(T=4, win_s=(3, 4))),
    _c('window_one_step_onevar', 'contract_storage', dict(T=3, eff=None, win_s=(1, 2), storage_kw=dict(costs=False))),
    _c('window_inside_repeated_setup', 'contract_storage', dict(T=4, win_s=(1, 3)), 'B', dict(warmup=True)),
    _c('in_portfolio_not_last', 'two_node', dict(T=2)),
    _c('storage_first_then_asset_with_later_window', 'contract_storage', dict(T=4, win_c=(2, 4), storage_first=True)),
    _c('windowed_storage_first_then_asset_on_whole_horizon', 'contract_storage', dict(T=4, win_s=(1, 3), storage_first=True)),
    _c('two_nodes', 'two_node', dict(T=2, two_node_storage=True)),
    _c('no_simult', 'contract_storage', dict(T=2, storage_kw=dict(no_simult_in_out=True)), 'A'),
    _c('no_simult_two_nodes_lossless_costfree', 'two_node', dict(T=2, two_node_storage=True, eff_s=None, storage_kw=dict(no_simult_in_out=True, costs=False)), 'A'),
    _c('max_duration', 'contract_storage', dict(T=4, eff=None, storage_kw=dict(max_store_duration=2, costs=False)), 'A', dict(msd=2)),
    _c('blocks', 'contract_storage', dict(T=4, eff=None, storage_kw=dict(block_size='2h', costs=False)), 'A', dict(blocks='2h')),
    _c('blocks_window_offset_not_a_multiple', 'contract_storage', dict(T=5, eff=None, win_s=(1, 5), storage_kw=dict(block_size='2h', costs=False)), 'A', dict(blocks='2h')),
    # storages whose variables act in several steps (own coarser frequency, periodicity): reported series vs physics
    _c('coarse_storage_q', 'coarse', dict(T=4, kind='storage', eff=0.75, ec=True), 'A', dict(name='co', coarse=True)),
    _c('coarse_storage_overhanging_start', 'coarse', dict(T=4, kind='storage', eff=0.75, ec=True, win=(-1, 5)), 'A', dict(name='co', coarse=True)),
    _c('periodic_storage', 'periodic', dict(T=4, kind='storage', eff=0.75, ec=True), 'A', dict(name='pe')),
] + [MSD_IRREGULAR[0]]
THOROUGH = QUICK + [
    _c('basic_T5', 'contract_storage', dict(T=5)),
    _c('window_inside_eff', 'contract_storage', dict(T=5, win_s=(1, 4), wacc=True)),
    _c('two_nodes_T3', 'two_node', dict(T=3, two_node_storage=True, wacc=True)),
    _c('no_simult_T3', 'contract_storage', dict(T=3, storage_kw=dict(no_simult_in_out=True)), 'A'),
    _c('no_simult_two_nodes', 'two_node', dict(T=2, two_node_storage=True, storage_kw=dict(no_simult_in_out=True)), 'A'),
    _c('max_duration_eff', 'contract_storage', dict(T=4, storage_kw=dict(max_store_duration=2)), 'A', dict(msd=2)),
    _c('max_duration_1_T5', 'contract_storage', dict(T=5, eff=None, storage_kw=dict(max_store_duration=1, costs=False)), 'A', dict(msd=1)),
    _c('max_duration_halfhour', 'contract_storage', dict(T=5, freq='30min', eff=None, storage_kw=dict(max_store_duration=1, costs=False)), 'A', dict(msd=1)),
    _c('blocks_eff', 'contract_storage', dict(T=4, storage_kw=dict(block_size='2h')), 'A', dict(blocks='2h')),
    _c('blocks_T6_3h', 'contract_storage', dict(T=6, eff=None, storage_kw=dict(block_size='3h', costs=False)), 'A', dict(blocks='3h')),
    _c('blocks_unaligned_T5', 'contract_storage', dict(T=5, eff=None, storage_kw=dict(block_size='2h', costs=False)), 'A', dict(blocks='2h')),
    _c('coarse_storage', 'coarse', dict(T=4, kind='storage', eff=0.75, ec=True), 'A', dict(name='co', coarse=True)),
] + MSD_IRREGULAR[1:]
BOUNDS = dict(quick='shapes %s; T<=4' % [c[0] for c in QUICK], thorough='shapes %s; T<=6' % [c[0] for c in THOROUGH])
OUTSIDE = ['periodic storages on grids with unequal steps (bounds of merged variables are group means by design)', 'combinations of MIP options with blocks', 'per-minor-step level of a coarse-frequency storage (checked at coarse interval ends only)']
ASSUMPTIONS = ['reported discharge carries a negative sign (EAO convention min(0,-x)); accepted',
               'level_t is the level at the END of step t']


GRIDV_QUICK = [('basic_eff', 'day_d_cet_dst'), ('window_inside', 'month_d'), ('no_simult', 'quarter_min'), ('two_nodes', 'day_h_useast_fall')]


def cases(tier, seed):
    from .. import shapes
    lst = THOROUGH if tier == 'thorough' else QUICK
    out = [(cid, dict(shape=SHAPE_OF[cid], kw=dict(kw), level=level, opts=opts)) for cid, kw, level, opts in lst]
    # the same storages on other kinds of grid (irregular steps, other main units, zone-aware)
    for cid, kw, level, opts in lst:
        if 'freq' in kw or 'unit' in kw or 'blocks' in opts or opts.get('coarse') or opts.get('warmup') or SHAPE_OF[cid] == 'periodic':
            continue      # periodic: merged variables carry the group MEAN of the bounds (pinned by a maintainer test) -- per-step limits need equal steps
        for gv in shapes.GRID_VARIANTS:
            if tier == 'thorough' or (cid, gv) in GRIDV_QUICK:
                out.append(('%s@%s' % (cid, gv), dict(shape=SHAPE_OF[cid], kw=dict(kw, gridv=gv), level=level, opts=opts)))
    return out


def _storage(pf, name):
    for a in pf.assets:
        if a.name == name:
            return a
    raise KeyError(name)


def physical(sc, name):
    """charge/discharge/level terms per grid step from the meaning of the storage's variables"""
    st = _storage(sc.sh.portf, name)
    tg = sc.sh.tg
    T = tg.T
    mp = sc.op.mapping
    mine = mp[(mp['asset'] == name) & (mp['type'] == 'd')]
    charge = [z3.RealVal(0)] * T
    discharge = [z3.RealVal(0)] * T
    # the storage's active steps from its own window (harness), not from the mapping
    from ..refmap import _ts
    s_, e_ = _ts(lift.ctor_arg(st, 'start'), tg.tz), _ts(lift.ctor_arg(st, 'end'), tg.tz)
    active = [t for t in range(T) if (s_ is None or tg.timepoints[t] >= s_) and (e_ is None or tg.timepoints[t] < e_)]
    physical.mapped = sorted(set(int(t) for t in mine['time_step']))
    seen = set()
    for i, r in mine.iterrows():
        t = int(r['time_step'])
        f = r['disp_factor'] if 'disp_factor' in mine.columns else 1.0
        if isinstance(f, float) and f != f:
            f = 1.0
        x = zl(sc.x[int(i)]) * zl(f)
        vn = str(r['var_name'])
        if vn == 'disp_in':
            charge[t] = charge[t] + (-x)
        elif vn == 'disp_out':
            discharge[t] = discharge[t] + x
        else:
            charge[t] = charge[t] + z3.If(x < 0, -x, 0)
            discharge[t] = discharge[t] + z3.If(x > 0, x, 0)
    eff = zl(lift.ctor_arg(st, 'eff_in'))
    level = []
    cur = zl(lift.ctor_arg(st, 'start_level'))
    dtv = [sym.ratval(sym.snap_fraction(float(v))) for v in tg.dt]
    for t in range(T):
        if t in active:
            cur = cur + eff * charge[t] - discharge[t] + zl(lift.ctor_arg(st, 'inflow')) * dtv[t]
        level.append(cur)
    return st, active, charge, discharge, level, dtv


def block_groups(tg, active, block):
    """independent grouping of the active steps into blocks of the given pandas frequency, anchored at the window start"""
    if not active:
        return []
    start = tg.timepoints[active[0]]
    step = pd.Timedelta(block)
    groups = {}
    for t in active:
        k = int((tg.timepoints[t] - start) // step)
        groups.setdefault(k, []).append(t)
    return [groups[k] for k in sorted(groups)]


def run_case(case_id, tier, seed, shape, kw, level, opts):
    rec = lpsem.Rec(PROP, case_id)
    name = opts.get('name', 'sto')
    res = scen.explore(shape, kw, level=level, warmup=bool(opts.get('warmup')))
    rec.paths = len(res)
    validated = False
    kf_msd = known.is_open('KF-C05-msd')
    allows = {}       # (first, last step of a window within the holding limit) -> (verdict, candidate) over all paths
    for pi, (path, D) in enumerate(res):
        if path.exc is not None:
            if common.is_rejection(path.exc):
                rec.rejected_paths += 1
                continue
            common.crash_candidate(rec, 'p%d/crash' % pi, path, D)
            continue
        sc = path.result
        P = 'p%d' % pi
        assume = list(D.pre) + path.pc + sym.atom_constraints() + scen.feasible(sc)
        if rec.vacuity(P, assume) is None:
            continue
        st, active, charge, discharge, level_t, dtv = physical(sc, name)
        okw = physical.mapped == active
        nmw = P + '/dispatch_variables_exactly_in_window'
        rec.obligations.append(dict(name=nmw, verdict='unsat' if okw else 'sat', secs=0, form='Q2'))
        rec.distinct.add(nmw)
        if not okw:
            rec.candidates.append(dict(name=nmw, env=common.generic_point(list(D.pre) + path.pc, D.names, seed) or {},
                                       info=dict(kind='window_steps', asset=name, active=active, mapped=physical.mapped), form='struct'))
            continue
        if not active:
            rec.note('storage inactive')
            continue
        size, end = zl(lift.ctor_arg(st, 'size')), zl(lift.ctor_arg(st, 'end_level'))
        coarse = bool(opts.get('coarse'))
        steps = active
        if coarse:
            # level is checked at the last minor step of every coarse interval only
            tgc = None
            mp = sc.op.mapping
            mine = mp[(mp['asset'] == name) & (mp['type'] == 'd')]
            last_of = {}
            for i, r in mine.iterrows():
                last_of[int(i)] = max(last_of.get(int(i), -1), int(r['time_step']))
            steps = sorted(set(last_of.values()))
        info0 = dict(asset=name, active=active)
        # known finding KF-C05-msd: with max_store_duration the level/holding obligations are enforced outside the trigger
        # region and, inside it, a reproducing witness is reported as KNOWN-FINDING (a VIOLATION if the entry is not open)
        trig = None
        if 'msd' in opts:
            trig = z3.Or(zl(lift.ctor_arg(st, 'start_level')) != 0, zl(lift.ctor_arg(st, 'inflow')) != 0)
        no_trig = [z3.Not(trig)] if trig is not None else []
        rec.twin(P + '/level_hi', assume + no_trig, level_t[steps[0]] <= size - 1)
        for t in steps:
            for lab, goal in (('level_lo/%d' % t, level_t[t] >= 0), ('level_hi/%d' % t, level_t[t] <= size)):
                rec.prove(P + '/' + lab, assume + no_trig, goal, form='Q1', info=dict(info0, kind='level', t=t))
                if trig is not None and not opts.get('outside_known_only'):
                    rec.prove(P + '/' + lab + '[start>0 or inflow]', assume + [trig], goal, form='Q1',
                              info=dict(info0, kind='level', t=t), known='KF-C05-msd' if kf_msd else None)
        if 'blocks' in opts:
            groups = block_groups(sc.sh.tg, active, opts['blocks'])
            for g in groups:
                rec.prove(P + '/block_end/%d' % g[-1], assume, level_t[g[-1]] == end, form='Q1',
                          info=dict(info0, kind='end', t=g[-1]))
        else:
            rec.prove(P + '/end_level', assume + no_trig, level_t[steps[-1]] == end, form='Q1', info=dict(info0, kind='end', t=steps[-1]))
            if trig is not None and not opts.get('outside_known_only'):
                rec.prove(P + '/end_level[start>0 or inflow]', assume + [trig], level_t[steps[-1]] == end, form='Q1',
                          info=dict(info0, kind='end', t=steps[-1]), known='KF-C05-msd' if kf_msd else None)
        if not coarse:
            for t in active:
                rec.prove(P + '/rate_in/%d' % t, assume, charge[t] <= zl(lift.ctor_arg(st, 'cap_in')) * dtv[t], form='Q1', info=dict(info0, kind='rate_in', t=t))
                rec.prove(P + '/rate_out/%d' % t, assume, discharge[t] <= zl(lift.ctor_arg(st, 'cap_out')) * dtv[t], form='Q1', info=dict(info0, kind='rate_out', t=t))
        # reporting
        iv = sc.out['internal_variables']
        T = sc.sh.tg.T
        rep_steps = range(T) if not coarse else steps
        for t in rep_steps:
            rec.prove(P + '/rep_level/%d' % t, assume, zl(iv[name + '_fill_level'].values[t]) == level_t[t], form='Q1',
                      info=dict(info0, kind='rep_level', t=t))
        for t in range(T):
            rec.prove(P + '/rep_charge/%d' % t, assume, zl(iv[name + '_charge'].values[t]) == charge[t], form='Q1',
                      info=dict(info0, kind='rep_charge', t=t))
            rec.prove(P + '/rep_discharge/%d' % t, assume, zl(iv[name + '_discharge'].values[t]) == -discharge[t], form='Q1',
                      info=dict(info0, kind='rep_discharge', t=t))
        if lift.ctor_arg(st, 'no_simult_in_out', False):
            for t in active:
                rec.prove(P + '/no_simult/%d' % t, assume, z3.Not(z3.And(charge[t] > 0, discharge[t] > 0)), form='Q1',
                          info=dict(info0, kind='no_simult', t=t))
        if 'msd' in opts:
            lim = float(opts['msd'])
            dts = [float(v) for v in sc.sh.tg.dt]
            trig2 = z3.Or(zl(lift.ctor_arg(st, 'start_level')) != 0, zl(lift.ctor_arg(st, 'inflow')) != 0)
            for i0, t0 in enumerate(active):
                acc = 0.0
                win = []
                for t in active[i0:]:
                    acc += dts[t]
                    win.append(t)
                    if acc > lim + 1e-12:
                        break
                else:
                    continue
                goal = z3.Not(z3.And(*[level_t[t] > 0 for t in win]))
                rec.prove(P + '/max_duration/%d-%d' % (win[0], win[-1]), assume + [z3.Not(trig2)], goal, form='Q1',
                          info=dict(info0, kind='msd', win=win))
                if not opts.get('outside_known_only'):
                    rec.prove(P + '/max_duration/%d-%d[start>0 or inflow]' % (win[0], win[-1]), assume + [trig2], goal, form='Q1',
                              info=dict(info0, kind='msd', win=win), known='KF-C05-msd' if kf_msd else None)
            # completeness: holding over any run of steps whose duration does NOT exceed the limit is possible (for some parameters with
            # empty start and no inflow): the rows must not forbid more than the limit says -- elapsed time, not a number of steps
            for i0, t0 in enumerate(active):
                acc, win = 0.0, []
                for t in active[i0:]:
                    if acc + dts[t] > lim + 1e-12:
                        break
                    acc += dts[t]
                    win.append(t)
                if not win or (len(win) == len(active[i0:]) and i0 > 0):
                    continue
                key = (win[0], win[-1])
                if allows.get(key, ('', None))[0] == 'sat':
                    continue            # a witness was found on another path (paths differ in what the market can deliver / absorb)
                sol = z3.Solver()
                sol.set('timeout', 60000)
                sol.add(*(assume + [z3.Not(trig2)] + [level_t[t] > 0 for t in win]))
                import time as _time
                t_ = _time.time()
                r = str(sol.check())
                rec.solver_s += _time.time() - t_
                if r == 'sat':
                    allows[key] = (r, None)
                    continue
                # replay point: parameters under which holding is physically possible (capacities, size, market limits non-zero)
                roomy = [z3.Real(n_) > 0 for n_ in D.names if n_.endswith(('_max', '_size', '_capin', '_capout'))] + \
                        [z3.Real(n_) < 0 for n_ in D.names if n_.endswith('_min')]
                env = common.generic_point(list(D.pre) + path.pc + [z3.Not(trig2)] + roomy, D.names, seed)
                strong = env is not None
                if key not in allows or (r == 'unknown' and allows[key][0] == 'unsat') or (strong and not allows[key][1].get('strong')):
                    if env is None:
                        env = common.generic_point(list(D.pre) + path.pc + [z3.Not(trig2)], D.names, seed) or {}
                    allows[key] = (r if key not in allows or allows[key][0] != 'unknown' else 'unknown',
                                   dict(env=env, info=dict(info0, kind='msd_allows', win=win), strong=strong))
        if not validated:
            validated = scen.validation_request(rec, sc, D, path, seed)
    for key, (r, cand) in sorted(allows.items()):
        nm = 'all_paths/max_duration_allows/%d-%d' % key
        rec.distinct.add(nm)
        rec.obligations.append(dict(name=nm, verdict={'sat': 'unsat', 'unsat': 'sat'}.get(r, 'unknown'), secs=0.0, form='Q4',
                                    note='witness exists' if r == 'sat' else 'no parameter values on any set-up path admit holding over the window'))
        if r == 'unsat':
            rec.candidates.append(dict(name=nm, form='Q4', env=cand['env'], info=cand['info']))
    return rec.result()


def observe(case, kwargs, env, rq):
    D = lift.Domain(theta=env)
    sc = scen.run(D, kwargs['shape'], kwargs.get('kw'), None, True, env=env, warmup=bool(kwargs.get('opts', {}).get('warmup')))
    o = scen.observation(sc)
    if rq.get('kind') == 'replay':
        name = kwargs.get('opts', {}).get('name', 'sto')
        st = _storage(sc.sh.portf, name)
        o['storage'] = dict(size=float(lift.ctor_arg(st, 'size')), start=float(lift.ctor_arg(st, 'start_level')), end=float(lift.ctor_arg(st, 'end_level')), eff=float(lift.ctor_arg(st, 'eff_in')),
                            inflow=float(lift.ctor_arg(st, 'inflow')), cap_in=float(lift.ctor_arg(st, 'cap_in')), cap_out=float(lift.ctor_arg(st, 'cap_out')))
        o['dt'] = [float(v) for v in sc.sh.tg.dt]
    return o


def judge(case, kwargs, cand, ans):
    info = cand.get('info', {})
    if cand.get('form') == 'crash' or 'crash' in info:
        return (True, 'raises on an in-domain input: ' + ans['error'][:200]) if 'error' in ans else (False, 'no exception')
    if 'error' in ans:
        return None, ans['error']
    o = ans['obs']
    p = o['problem']
    n = len(p['c'])
    x = [cand['env'].get('x%d' % i, 0.0) for i in range(n)]
    if info.get('kind') == 'window_steps':
        mapped = sorted({m['time_step'] for m in p['mapping'] if m['asset'] == info['asset'] and m['type'] == 'd'})
        return mapped != info['active'], 'the storage has dispatch variables at steps %s, its window covers %s' % (mapped, info['active'])
    if info.get('kind') == 'msd_allows':
        # decided exactly on the numbers of the problem the unshimmed code built: is there a feasible point holding over the window?
        xs, cons = scen.z3_feasible_region(p)
        s = o['storage']; dt = o['dt']; T = len(dt)
        chz = [z3.RealVal(0)] * T; disz = [z3.RealVal(0)] * T; act = set()
        for m in p['mapping']:
            if m['asset'] == info['asset'] and m['type'] == 'd':
                t = m['time_step']; act.add(t)
                f = m.get('disp_factor'); f = 1.0 if f is None else f
                v = xs[m['index']] * z3.RealVal(str(f))
                if m['var_name'] == 'disp_in':
                    chz[t] = chz[t] - v
                elif m['var_name'] == 'disp_out':
                    disz[t] = disz[t] + v
                else:
                    chz[t] = chz[t] + z3.If(v < 0, -v, 0); disz[t] = disz[t] + z3.If(v > 0, v, 0)
        cur = z3.RealVal(str(s['start'])); lev = []
        for t in range(T):
            if t in act:
                cur = cur + z3.RealVal(str(s['eff'])) * chz[t] - disz[t] + z3.RealVal(str(s['inflow'] * dt[t]))
            lev.append(cur)
        sol = z3.Solver(); sol.set('timeout', 120000)
        sol.add(*cons); sol.add(*[lev[t] > 0 for t in info['win']])
        r = str(sol.check())
        dur = sum(dt[t] for t in info['win'])
        if r == 'unsat':
            return True, 'no feasible point of the real problem keeps the level above zero over steps %s (duration %.6g, within the limit)' % (info['win'], dur)
        return (False, 'a feasible point holding over the window exists') if r == 'sat' else (None, 'solver: ' + r)
    r = scen.feasibility_residual(p, x)
    if r > 1e-6:
        return False, 'counterexample x infeasible for the unshimmed problem (residual %.3g)' % r
    s = o['storage']; dt = o['dt']; T = len(dt)
    name = info['asset']
    ch = [0.0] * T; dis = [0.0] * T
    active = set()
    for m in p['mapping']:
        if m['asset'] == name and m['type'] == 'd':
            t = m['time_step']; active.add(t)
            f = m.get('disp_factor'); f = 1.0 if f is None else f
            v = x[m['index']] * f
            if m['var_name'] == 'disp_in':
                ch[t] += -v
            elif m['var_name'] == 'disp_out':
                dis[t] += v
            else:
                ch[t] += max(0.0, -v); dis[t] += max(0.0, v)
    lev = []; cur = s['start']
    for t in range(T):
        if t in active:
            cur += s['eff'] * ch[t] - dis[t] + s['inflow'] * dt[t]
        lev.append(cur)
    iv = o['output']['internal_variables']
    k = info.get('kind'); t = info.get('t')
    if k == 'window_steps':
        return sorted(active) != info['active'], 'the storage has dispatch variables at steps %s, its window covers %s' % (sorted(active), info['active'])
    tol = 1e-6 * max(1.0, s['size'], max(abs(v) for v in lev))
    if k == 'level':
        bad = lev[t] < -tol or lev[t] > s['size'] + tol
        return bad, 'physical level at step %d is %.6g (size %.6g)' % (t, lev[t], s['size'])
    if k == 'end':
        return abs(lev[t] - s['end']) > tol, 'physical level at last step %d is %.6g, end level %.6g' % (t, lev[t], s['end'])
    if k == 'rate_in':
        return ch[t] > s['cap_in'] * dt[t] + tol, 'charge %.6g vs cap_in*dt %.6g at step %d' % (ch[t], s['cap_in'] * dt[t], t)
    if k == 'rate_out':
        return dis[t] > s['cap_out'] * dt[t] + tol, 'discharge %.6g vs cap_out*dt %.6g at step %d' % (dis[t], s['cap_out'] * dt[t], t)
    if k == 'rep_level':
        v = iv[name + '_fill_level'][t]
        return abs(v - lev[t]) > tol, 'reported fill level %.6g vs physical %.6g at step %d' % (v, lev[t], t)
    if k == 'rep_charge':
        v = iv[name + '_charge'][t]
        return abs(v - ch[t]) > tol, 'reported charge %.6g vs physical %.6g at step %d' % (v, ch[t], t)
    if k == 'rep_discharge':
        v = iv[name + '_discharge'][t]
        return abs(v + dis[t]) > tol, 'reported discharge %.6g vs physical %.6g at step %d' % (v, -dis[t], t)
    if k == 'no_simult':
        return (ch[t] > tol and dis[t] > tol), 'charge %.6g and discharge %.6g in step %d' % (ch[t], dis[t], t)
    if k == 'msd':
        w = info['win']
        return all(lev[q] > tol for q in w), 'level stays non-zero over steps %s: %s' % (w, [round(lev[q], 6) for q in w])
    return None, 'unknown obligation kind'
