"""C17 Stochastic and robust problems respect their defining bounds.

Two-stage SLP (real stoch_lin_prog.make_slp, lifted; scenario prices symbolic, present part shared):
  the lifted problem IS the two-stage program --
    Q1  F_slp(x_p, z^0..z^S)  =>  F_base(x_p, z^s) for every scenario s           (scenario 0 = the original future)
    Q1  /\\_s F_base(x_p, z^s)  =>  F_slp(x_p, z^0..z^S)
    Q2  val_slp = 1/(S+1) * sum_s val_s(x_p, z^s)      with val_s from a fresh set-up of the portfolio with scenario s' prices
  present-stage decisions are common to all scenarios by construction of the variable blocks (checked on the mapping).
  The bounds of the property are consequences of this characterisation (restriction to one scenario's solution gives the lower,
  relaxing the coupling the upper bound; identical scenarios collapse to the deterministic problem) -- stated, not re-proven per bound.
Robust target (real OptimProblem.optimize through the cvxpy recorder stub of C03): the recorded problem is
    max t  s.t.  x in F,  t <= -c_s.x  for every sample s          (Q2 on the recorded constraints / objective)
  and the reported value is -c.x of the nominal costs; the two inequalities of the property follow from that definition and the
  solver contract.
"""
import datetime as dt

import numpy as np
import pandas as pd
import z3

from .. import scen, common, sym, lpsem, lift, shapes, obs, embed_lp
from ..sym import Sym, lift as zl, ratval
from fractions import Fraction

PROP = 'C17'
SHAPE_OF = {}


def _c(cid, shape, kw, boundary, S):
    SHAPE_OF[cid] = shape
    return (cid, kw, boundary, S)


QUICK = [
    _c('contract_storage_mid_S1', 'contract_storage', dict(T=3), 1, 1),
    _c('contract_storage_mid_S2', 'contract_storage', dict(T=3), 2, 2),
    _c('two_node_first_S1', 'two_node', dict(T=2), 0, 1),
    _c('two_node_last_S2', 'two_node', dict(T=3), 2, 2),
    _c('transport_balance_only', 'slp_transport', dict(T=3), 1, 2),
    _c('reverse_transport_costs', 'slp_transport', dict(T=3, reverse=True), 1, 1),
    _c('scaled_storage_mid', 'scaled', dict(T=3, base='storage'), 1, 1),
    _c('multicommodity_take', 'multicommodity', dict(T=3, take=(0, 3)), 1, 2),
    # variables that act in several steps and straddle the present/future boundary (orders, coarse intervals) are present-stage decisions
    _c('orders_straddle_boundary', 'orderbook', dict(T=4, orders=((0, 3, 2.0), (1, 4, -1.5), (1, 2, 1.0), (2, 4, 1.0))), 2, 1),
    # an order without any step in the horizon keeps a variable without mapping row (neither present nor future)
    _c('order_outside_the_horizon_listed_first', 'orderbook', dict(T=4, orders=((-3, -1, 1.0), (0, 3, 2.0), (2, 4, -1.5))), 2, 1),
    _c('order_outside_the_horizon_listed_last', 'orderbook', dict(T=3, orders=((0, 2, 2.0), (1, 3, -1.5), (6, 8, 1.0))), 1, 2),
    _c('coarse_intervals_straddle_boundary', 'coarse', dict(T=4, kind='contract', ec=True), 1, 1),
    _c('coarse_transport_straddles_boundary', 'coarse', dict(T=4, kind='transport', eff=0.5), 3, 2),
]
THOROUGH = QUICK + [
    _c('contract_storage_T4_S2', 'contract_storage', dict(T=4, wacc=True), 2, 2),
    _c('two_node_2n_storage_S2', 'two_node', dict(T=3, two_node_storage=True), 1, 2),
    _c('coarse_contract', 'coarse', dict(T=4, kind='contract'), 2, 1),
    _c('orderbook', 'orderbook', dict(T=3), 1, 1),
    _c('window_storage', 'contract_storage', dict(T=4, win_s=(1, 4)), 2, 2),
    _c('take_straddles_boundary', 'contract_take', dict(T=4, take=(1, 3)), 2, 1),
    # deeper: three extra scenarios, five steps, the boundary at every position of a discounted storage
    _c('contract_storage_S3', 'contract_storage', dict(T=3), 1, 3),
    _c('contract_storage_T5_boundary_1', 'contract_storage', dict(T=5, wacc=True), 1, 1),
    _c('contract_storage_T5_boundary_4', 'contract_storage', dict(T=5, wacc=True), 4, 1),
    _c('two_node_S3_first', 'two_node', dict(T=3), 0, 3),
    _c('scaled_transport_last_S2', 'scaled', dict(T=3, base='transport'), 2, 2),
    _c('multicommodity_T4_S2', 'multicommodity', dict(T=4, take=(1, 4)), 2, 2),
]
BOUNDS = dict(quick='%s; boundary at first/middle/last step; 1-2 extra scenarios; T<=4' % [c[0] for c in QUICK], thorough='%s' % [c[0] for c in THOROUGH])
OUTSIDE = ['more than 2 (quick) / 3 (thorough) extra scenarios', 'MIP portfolios in the SLP', 'the numeric solver (contract, C03)']
ASSUMPTIONS = ['scenarios share the present prices (documented)', 'the property\'s bounds are mathematical consequences of the two-stage characterisation proven here']
EXTRA_SHIMS = ['cvxpy recorder stub (robust target only; see C03)']


def cases(tier, seed):
    lst = THOROUGH if tier == 'thorough' else QUICK
    out = [(cid, dict(kind='slp', shape=SHAPE_OF[cid], kw=dict(kw), boundary=b, S=S)) for cid, kw, b, S in lst]
    # the present/future boundary given as datetime / string / numpy datetime64 instead of a pandas Timestamp
    for form in ('datetime', 'str', 'datetime64'):
        out.append(('boundary_given_as_%s' % form, dict(kind='slp', shape='contract_storage', kw=dict(T=3), boundary=1, S=1, sf_form=form)))
    out.append(('present_fixed_by_list_of_booleans', dict(kind='slp', shape='two_node', kw=dict(T=4), boundary=3, S=1, fix_form='list')))
    out.append(('present_fixed_by_date', dict(kind='slp', shape='contract_storage', kw=dict(T=4), boundary=2, S=1, fix_form='date')))
    out.append(('boundary_in_utc_on_cet_grid', dict(kind='slp', shape='contract_storage', kw=dict(T=3, gridv='hour_cet_dst'), boundary=1, S=1, sf_form='zone:UTC')))
    out.append(('boundary_in_cet_on_utc_grid', dict(kind='slp', shape='two_node', kw=dict(T=3, gridv='hour_d_utc'), boundary=2, S=1, sf_form='zone:CET')))
    for cid, shape, kw, S in (('robust_contract_storage', 'contract_storage', dict(T=2), 2), ('robust_two_node', 'two_node', dict(T=2), 1),
                              ('robust_mip_orderbook_full_exec', 'orderbook', dict(T=2, full_exec=True, orders=((0, 2, 2.0), (1, 2, -1.5))), 1),
                              ('robust_mip_storage_no_simult', 'contract_storage', dict(T=2, storage_kw=dict(no_simult_in_out=True)), 1)):
        out.append((cid, dict(kind='robust', shape=shape, kw=kw, S=S)))
    # the cost samples that feed the robust target and make_slp (Portfolio.create_cost_samples, the assets' costs_only branches) are the
    # cost vectors of the scenario problems -- for every asset class, also on grids whose step differs from the main time unit
    for cid, shape, kw in COST_SAMPLES if tier == 'thorough' else COST_SAMPLES[:COST_QUICK]:
        out.append(('cost_samples_' + cid, dict(kind='costs', shape=shape, kw=kw)))
    # sequences of calls on the same objects (decided with C10's history machinery: the final problem equals that of fresh objects)
    # -- cost samples are those of the prices in the sample dictionary at the time of the call
    out.append(('history_cost_samples_from_a_refilled_sample_dictionary', common.delegated('c10', pf='dicts', final='h_costsample', histories=[['costs']])))
    return out


COST_SAMPLES = [
    ('scaled_storage_day_grid', 'scaled', dict(T=3, base='storage', unit='h', freq='d')),
    ('scaled_transport_quarter_hours', 'scaled', dict(T=3, base='transport', unit='h', freq='15min')),
    ('contract_storage_wacc_day_unit', 'contract_storage', dict(T=3, freq='12h', unit='d', wacc=True)),
    ('two_node_2n_storage', 'two_node', dict(T=2, two_node_storage=True, wacc=True, gridv='day_d_cet_dst')),
    ('multicommodity_take', 'multicommodity', dict(T=3, take=(0, 3), gridv='quarter_min')),
    ('plant_fuel', 'plant', dict(T=3, fuel=True, mr=2, gridv='day_d_cet_dst')),
    ('plant_min_load_costs', 'plant_minload', dict(T=2, fuel=False, ramps=False)),
    ('scaled_periodic_contract', 'scaled', dict(T=5, base='periodic_contract')),
    ('chp', 'plant', dict(T=2, fuel=True, heat=True, ramp=True)),
    ('coarse_contract', 'coarse', dict(T=4, kind='contract', ec=True)),
    ('coarse_transport', 'coarse', dict(T=4, kind='transport', eff=0.5)),
    ('periodic_contract', 'periodic', dict(T=4, kind='contract', ec=True)),
    ('orderbook', 'orderbook', dict(T=3, wacc=True)),
    ('structured', 'structured', dict(T=2)),
    ('ext_transport', 'ext_transport', dict(T=3, gridv='day_h_useast_fall')),
    ('caps_interval_data', 'caps_dict', dict(T=4, wacc=True)),
    ('mixed_discount_rates', 'mixed_wacc', dict(T=3, freq='d', unit='d')),
    ('windows', 'windows', dict(T=4)),
    ('scaled_storage_own_window', 'scaled', dict(T=4, base='storage', win=(1, 3))),
    ('linked_plants', 'linked', dict(T=3)),
    ('storage_no_simult', 'contract_storage', dict(T=2, storage_kw=dict(no_simult_in_out=True))),
    ('storage_max_duration', 'contract_storage', dict(T=3, eff=None, storage_kw=dict(max_store_duration=2, costs=False))),
    ('scaled_take_month_grid', 'scaled', dict(T=3, base='take', gridv='month_d')),
    ('coarse_storage', 'coarse', dict(T=4, kind='storage', eff=0.75, ec=True)),
    ('periodic_transport', 'periodic', dict(T=4, kind='transport', eff=0.5)),
    ('structured_two_internal', 'structured', dict(T=2, two_internal=True)),
]
COST_QUICK = 22


def run_costs(rec, seed, shape, kw):
    def build(D):
        sh = shapes.build_portfolio(D, shape, **kw)
        smp = scenario_prices(D, sh.prices, sh.tg.T, 0, 1)[0]
        cs = sh.portf.create_cost_samples([dict(smp)], sh.tg)
        sh2 = shapes.build_portfolio(D, shape, **kw)
        op = sh2.portf.setup_optim_problem(smp, sh2.tg)
        return cs[0], op
    res = lift.explore_build(build, level='A')
    rec.paths = len(res)
    validated = False
    for pi, (path, D) in enumerate(res):
        P = 'p%d' % pi
        if path.exc is not None:
            if common.is_rejection(path.exc):
                rec.rejected_paths += 1
                continue
            common.crash_candidate(rec, P + '/crash', path, D, info=dict(kind='costs'))
            continue
        cs, op = path.result
        base = list(D.pre) + path.pc + sym.atom_constraints()
        if rec.vacuity(P, base) is None:
            continue
        n = len(op.c)
        if len(cs) != n:
            rec.obligations.append(dict(name=P + '/length', verdict='sat', secs=0, form='Q2'))
            rec.candidates.append(dict(name=P + '/length', env=common.generic_point(base, D.names, seed) or {}, info=dict(kind='costs', ob='length'), form='struct'))
            continue
        rec.twin(P + '/cost_sample_is_cost_vector', base, z3.BoolVal(False))
        goals = [('c[%d]' % i, zl(cs[i]) == zl(op.c[i]), dict(kind='costs', i=i)) for i in range(n)
                 if not z3.simplify(zl(cs[i])).eq(z3.simplify(zl(op.c[i])))]
        nm = P + '/cost_sample_is_cost_vector'
        if not goals:
            rec.obligations.append(dict(name=nm, verdict='unsat', secs=0, form='Q2'))
            rec.distinct.add(nm)
        else:
            rec.prove_each(nm, base, goals, form='Q2')
        if not validated:
            env = common.generic_point(base, D.names, seed)
            if env is not None:
                for n_ in D.names:
                    env.setdefault(n_, 0.0)
                rec.validations.append(dict(env=env, lifted=obs.to_jsonable(dict(sample=[v for v in cs]), env)))
                validated = True
    return rec.result()


def pf_slp_transport(D, T=3, reverse=False):
    """node A balanced only by a cost-free contract and the sending side of a transport (future coefficients of that row cancel)"""
    eao = lift.import_eao()
    tg = shapes.grid(T)
    nA, nB = shapes.nodes('A', 'B')
    mA = shapes.mk_market(D, 'mA', nA, T, 'p')
    if reverse:
        lo = D('tr_min', hi=0)
        tr = eao.assets.Transport(name='tr', nodes=[nA, nB], min_cap=lo, max_cap=0., efficiency=0.5, costs_const=D('tr_cc', lo=0), costs_time_series='k')
    else:
        tr = shapes.mk_transport(D, 'tr', nA, nB, eff=0.5, cost_ts='k')
    mB = shapes.mk_market(D, 'mB', nB, T, 'q')
    st = shapes.mk_storage(D, 'sto', nB, eff=None, costs=False)
    pf = eao.portfolio.Portfolio([mA, tr, mB, st])
    return shapes.Shape(pf, tg, shapes.prices_for(D, ['p', 'q', 'k'], T))


shapes.PORTFOLIOS['slp_transport'] = pf_slp_transport


def scenario_prices(D, prices, T, boundary, S):
    """S extra scenarios: present part (steps < boundary) shared with the original prices, future part own symbols"""
    out = []
    for s in range(S):
        d = {}
        for k, v in prices.items():
            if k in ('capmin', 'capmax', 'ecs'):
                d[k] = v
                continue
            arr = np.empty(T, dtype=object if D.symbolic else float)
            fut = D.arr('%s_s%d_' % (k, s), T)
            for t in range(T):
                arr[t] = v[t] if t < boundary else fut[t]
            d[k] = arr
        out.append(d)
    return out


def scenario(D, shape, kw, boundary, S, sf_form=None):
    eao = lift.import_eao()
    sh = shapes.build_portfolio(D, shape, **kw)
    tg = sh.tg
    T = tg.T
    samples = scenario_prices(D, sh.prices, T, boundary, S)
    op_base = sh.portf.setup_optim_problem(sh.prices, tg)
    # independent per-scenario problems: fresh portfolios with the scenario's prices
    scen_ops = []
    for smp in samples:
        sh2 = shapes.build_portfolio(D, shape, **kw)
        scen_ops.append(sh2.portf.setup_optim_problem(smp, sh2.tg))
    sh3 = shapes.build_portfolio(D, shape, **kw)
    op_in = sh3.portf.setup_optim_problem(sh3.prices, sh3.tg)
    start_future = shapes.tstep(sh3.tg, boundary)
    if sf_form == 'datetime':
        start_future = pd.Timestamp(start_future).to_pydatetime()
    elif sf_form == 'str':
        start_future = str(pd.Timestamp(start_future))
    elif sf_form == 'datetime64':
        start_future = np.datetime64(pd.Timestamp(start_future))
    elif sf_form and sf_form.startswith('zone:'):
        start_future = pd.Timestamp(start_future).tz_convert(sf_form[5:]).to_pydatetime()      # the same instant written in another time zone
    slp = eao.stoch_lin_prog.make_slp(op_in, sh3.portf, sh3.tg, start_future, [dict(s) for s in samples])
    scenario.last_shape = sh3          # the portfolio object the SLP was built from (for output extraction, C04)
    return sh, op_base, scen_ops, slp


def run_case(case_id, tier, seed, kind, **kw):
    rec = lpsem.Rec(PROP, case_id)
    if kind == 'robust':
        from . import c03
        return c03.run_robust(rec, seed, **kw)
    if kind == 'costs':
        return run_costs(rec, seed, **kw)
    return run_slp(rec, seed, **kw)


def blocks(slp_lp, base_lp, T, boundary):
    """variable correspondence from the SLP mapping: for scenario s (0 = original), base variable i -> SLP variable"""
    mp = slp_lp.mapping
    col = [c for c in mp.columns if str(c).startswith('slp_step')]
    assert len(col) == 1, col
    col = col[0]
    n = base_lp.n
    first = mp[~mp.index.duplicated(keep='first')]
    bk = base_lp.var_keys()
    by_s = {}
    for i, r in first.iterrows():
        v = r[col]
        s = None if (isinstance(v, float) and v != v) else int(v)
        node = r['node'] if isinstance(r['node'], str) else None
        by_s.setdefault(s, {})[(r['asset'], str(r['var_name']), int(r['time_step']), node)] = int(i)
    maps = []
    S = len([k for k in by_s if k is not None and k >= 0])
    for s in [-1] + list(range(S)):
        m = {}
        for i in range(n):
            k = bk.get(i)
            if k is None:
                m[i] = i               # a variable without mapping row (e.g. an order outside the horizon) belongs to no step: it stays one variable,
                continue               # common to all scenarios, at its own position (the scenario copies are appended behind the original variables)
            if k in by_s.get(None, {}):
                m[i] = by_s[None][k]            # present variable, common to all scenarios
            elif k in by_s.get(s, {}):
                m[i] = by_s[s][k]
            else:
                m[i] = None
        maps.append(m)
    present = set(by_s.get(None, {}).values()) | {i for i in range(n) if bk.get(i) is None}
    return maps, present, S


def run_slp(rec, seed, shape, kw, boundary, S, sf_form=None, fix_form=None):
    def build(D):
        r = scenario(D, shape, kw, boundary, S, sf_form)
        # the lower bound of the property fixes the present to a single-scenario solution (fix_time_window up to the boundary): the variables
        # that get pinned must be exactly the present-stage decisions of the two-stage program
        sh4 = shapes.build_portfolio(D, shape, **kw)
        n4 = len(r[1].c)
        xbar = common.sym_x(n4, 'xbar')
        mask = np.array([t < boundary for t in range(sh4.tg.T)])
        if fix_form == 'list':
            mask = [bool(v_) for v_ in mask]          # the present given as a plain python list of booleans
        elif fix_form == 'date':
            mask = (pd.Timestamp(shapes.tstep(sh4.tg, boundary)) - pd.Timedelta(minutes=1)).to_pydatetime()
        opf = sh4.portf.setup_optim_problem(sh4.prices, sh4.tg, fix_time_window={'I': mask, 'x': xbar}) if boundary > 0 else None
        return r + (opf, xbar)
    res = lift.explore_build(build, level='A')
    rec.paths = len(res)
    validated = False
    for pi, (path, D) in enumerate(res):
        P = 'p%d' % pi
        if path.exc is not None:
            if common.is_rejection(path.exc):
                rec.rejected_paths += 1
                continue
            common.crash_candidate(rec, P + '/crash', path, D, info=dict(kind='crash'))
            continue
        sh, op_base, scen_ops, slp, opf, xbar = path.result
        B = lpsem.LP(op_base)
        SL = lpsem.LP(slp)
        Cs = [B] + [lpsem.LP(o) for o in scen_ops]           # scenario 0 = original prices
        base = list(D.pre) + path.pc + sym.atom_constraints()
        X = SL.mk_x('X')
        try:
            maps, present, nS = blocks(SL, B, sh.tg.T, boundary)
        except AssertionError as e:
            maps = None
        if maps is None or nS != S or any(v is None for m in maps for v in m.values()):
            rec.obligations.append(dict(name=P + '/blocks', verdict='sat', secs=0, form='struct'))
            rec.candidates.append(dict(name=P + '/blocks', env={}, info=dict(kind='blocks'), form='struct'))
            continue
        # present variables are exactly the variables of steps before the boundary
        bk = B.var_keys()
        want_present = {maps[0][i] for i in range(B.n) if i not in bk or bk[i][2] < boundary}
        okp = want_present == present
        rec.obligations.append(dict(name=P + '/present_common', verdict='unsat' if okp else 'sat', secs=0, form='struct'))
        rec.distinct.add(P + '/present_common')
        if not okp:
            rec.candidates.append(dict(name=P + '/present_common', env={}, info=dict(kind='present'), form='struct'))
            continue
        if opf is not None:
            Fx = lpsem.LP(opf)
            goals = []
            for i in range(B.n):
                if i not in bk:
                    # a variable without mapping row belongs to no step: a fixed time window leaves it as it is
                    goals.append(('free[%d]' % i, z3.And(Fx.l[i] == B.l[i], Fx.u[i] == B.u[i]), dict(kind='fix_present', i=i, key=['(no mapping row)'])))
                    continue
                if bk[i][2] < boundary:
                    goals.append(('pinned[%d]' % i, z3.And(Fx.l[i] == zl(xbar[i]), Fx.u[i] == zl(xbar[i])), dict(kind='fix_present', i=i, key=[str(v) for v in bk[i]])))
                else:
                    goals.append(('free[%d]' % i, z3.And(Fx.l[i] == B.l[i], Fx.u[i] == B.u[i]), dict(kind='fix_present', i=i, key=[str(v) for v in bk[i]])))
            todo = [g for g in goals if not z3.is_true(z3.simplify(g[1]))]
            nmf = P + '/fixing_the_present_pins_the_present_stage'
            if not todo:
                rec.obligations.append(dict(name=nmf, verdict='unsat', secs=0, form='Q2'))
                rec.distinct.add(nmf)
            else:
                rec.prove_each(nmf, base, todo, form='Q2')
        covered = set()
        for m in maps:
            covered |= set(m.values())
        if covered != set(range(SL.n)):
            rec.obligations.append(dict(name=P + '/all_variables_used', verdict='sat', secs=0, form='struct'))
            rec.candidates.append(dict(name=P + '/all_variables_used', env={}, info=dict(kind='blocks'), form='struct'))
            continue
        xs = [[X[m[i]] for i in range(B.n)] for m in maps]    # scenario vectors in base order
        # (a) F_slp => F_base for each scenario
        Fslp = SL.feas(X)
        if rec.vacuity(P + '/slp_feasible', base + Fslp) is None:
            continue
        goals = []
        for s, xv in enumerate(xs):
            for lab, g, gi in embed_lp.goals_for(B, xv):
                goals.append(('s%d/%s' % (s, lab), g, dict(kind='slp2scen', s=s, label=lab)))
        rec.twin(P + '/slp2scen', base + Fslp, z3.BoolVal(False))
        rec.prove_each(P + '/slp2scen', base + Fslp, goals, form='Q1', info=dict(kind='slp2scen'))
        # (b) all scenarios feasible => SLP feasible
        Fall = [c for xv in xs for c in B.feas(xv)]
        goals = [(lab, g, dict(kind='scen2slp', label=lab)) for lab, g, gi in embed_lp.goals_for(SL, X)]
        rec.prove_each(P + '/scen2slp', base + Fall, goals, form='Q1', info=dict(kind='scen2slp'))
        # (c) value = mean of scenario values, each with its own independently set-up cost vector
        mean = z3.Sum([Cs[s].val(xs[s]) for s in range(S + 1)]) / (S + 1)
        rec.prove(P + '/value_is_mean', base, SL.val(X) == mean, form='Q2', info=dict(kind='value'))
        if not validated:
            names = list(D.names)
            env = common.generic_point(base, names, seed)
            if env is not None:
                for nm in names:
                    env.setdefault(nm, 0.0)
                rec.validations.append(dict(env=env, lifted=obs.to_jsonable(dict(slp=obs.problem_obs(slp)), env)))
                validated = True
    return rec.result()


# ------------------------------------------------------------------------------------------------ pristine
def observe(case, kwargs, env, rq):
    kw = dict(kwargs)
    kind = kw.pop('kind')
    if kind == 'robust':
        from . import c03
        return c03.observe_robust(case, kw, env, rq)
    if kind == 'costs':
        D = lift.Domain(theta=env)
        sh = shapes.build_portfolio(D, kw['shape'], **kw['kw'])
        smp = scenario_prices(D, sh.prices, sh.tg.T, 0, 1)[0]
        cs = sh.portf.create_cost_samples([dict(smp)], sh.tg)
        o = dict(sample=[float(v) for v in cs[0]])
        if rq.get('kind') == 'replay':
            sh2 = shapes.build_portfolio(D, kw['shape'], **kw['kw'])
            o['c'] = [float(v) for v in sh2.portf.setup_optim_problem(smp, sh2.tg).c]
        return o
    D = lift.Domain(theta=env)
    sh, op_base, scen_ops, slp = scenario(D, kw['shape'], kw['kw'], kw['boundary'], kw['S'], kw.get('sf_form'))
    o = dict(slp=obs.problem_obs(slp))
    if rq.get('kind') == 'replay' and rq.get('info', {}).get('kind') == 'fix_present':
        i = rq['info']['i']
        sh4 = shapes.build_portfolio(D, kw['shape'], **kw['kw'])
        n4 = len(op_base.c)
        xbar = np.array([float(env.get('xbar%d' % k, 0.25 + k)) for k in range(n4)])
        mask = np.array([t < kw['boundary'] for t in range(sh4.tg.T)])
        if kw.get('fix_form') == 'list':
            mask = [bool(v_) for v_ in mask]
        elif kw.get('fix_form') == 'date':
            mask = (pd.Timestamp(shapes.tstep(sh4.tg, kw['boundary'])) - pd.Timedelta(minutes=1)).to_pydatetime()
        opf = sh4.portf.setup_optim_problem(sh4.prices, sh4.tg, fix_time_window={'I': mask, 'x': xbar.copy()})
        o['fix_present'] = dict(i=i, l=float(opf.l[i]), u=float(opf.u[i]), xbar=float(xbar[i]), base_l=float(op_base.l[i]), base_u=float(op_base.u[i]))
        return o
    if rq.get('kind') == 'replay':
        # real optimisation: SLP optimum vs the bounds of the property
        vs, ss = embed_lp.optimum(slp)
        per = []
        sols = []
        for o_ in [op_base] + scen_ops:
            r = o_.optimize()
            per.append(None if isinstance(r, str) else float(r.value))
            sols.append(None if isinstance(r, str) else np.asarray(r.x, dtype=float))
        o.update(v_slp=vs, s_slp=ss, per_scenario=per)
        # exact two-stage optimum via an independently assembled block problem
        import scipy.sparse as sp
        B = lpsem.LP(op_base)
        n = B.n
        bk = B.var_keys()
        boundary = kw['boundary']
        pres = [i for i in range(n) if i in bk and bk[i][2] < boundary]
        fut = [i for i in range(n) if i not in pres]
        S1 = len(scen_ops) + 1
        N = len(pres) + S1 * len(fut)
        pos_p = {i: k for k, i in enumerate(pres)}
        rows, b, ct = [], [], ''
        c = np.zeros(N); l = np.zeros(N); u = np.zeros(N)
        for s, o_ in enumerate([op_base] + scen_ops):
            pos = dict(pos_p)
            for k, i in enumerate(fut):
                pos[i] = len(pres) + s * len(fut) + k
            cs = np.asarray(o_.c, dtype=float)
            for i in range(n):
                c[pos[i]] += cs[i] / S1 if i in fut else cs[i] / S1
                l[pos[i]] = float(np.asarray(o_.l, dtype=float)[i]); u[pos[i]] = float(np.asarray(o_.u, dtype=float)[i])
            A = o_.A.tocsr() if o_.A is not None else None
            if A is not None:
                M = sp.lil_matrix((A.shape[0], N))
                Ad = A.toarray()
                for i in range(n):
                    M[:, pos[i]] = Ad[:, [i]]
                rows.append(M.tocsr()); b.append(np.asarray(o_.b, dtype=float)); ct += o_.cType
        eao = lift.import_eao()
        ref = eao.optimization.OptimProblem(c=c, l=l, u=u, A=sp.vstack(rows) if rows else None, b=np.hstack(b) if b else None, cType=ct,
                                            mapping=pd.DataFrame({'asset': ['x'] * N, 'time_step': [0] * N, 'type': ['d'] * N, 'node': ['n'] * N}))
        o['v_two_stage'], o['s_two_stage'] = embed_lp.optimum(ref)
        # numeric re-evaluation of the violated statement at the witness
        try:
            SL = lpsem.LP(slp)
            maps, present, nS = blocks(SL, B, sh.tg.T, boundary)
            X0 = [float(env.get('X%d' % i, 0.0)) for i in range(SL.n)]
            pj_slp = obs.to_jsonable(obs.problem_obs(slp))
            pj_base = obs.to_jsonable(obs.problem_obs(op_base))
            xs = [[X0[m[i]] if m[i] is not None else 0.0 for i in range(B.n)] for m in maps]
            o['res_slp'] = scen.feasibility_residual(pj_slp, X0)
            o['res_scen'] = [scen.feasibility_residual(pj_base, xv) for xv in xs]
            o['val_slp'] = -sum(c_ * v for c_, v in zip(pj_slp['c'], X0))
            cvecs = [np.asarray(o_.c, dtype=float) for o_ in [op_base] + scen_ops]
            o['val_mean'] = float(np.mean([-float(np.dot(cv, xv)) for cv, xv in zip(cvecs, xs)]))
        except Exception as e:  # noqa: BLE001 - optional extra evidence
            o['nums_error'] = '%s: %s' % (type(e).__name__, e)
    return o


def judge(case, kwargs, cand, ans):
    info = cand.get('info', {})
    if cand.get('form') == 'crash' or 'crash' in info:
        return (True, 'raises on an in-domain input: ' + ans['error'][:200]) if 'error' in ans else (False, 'no exception')
    if 'error' in ans:
        return None, ans['error']
    if kwargs.get('kind') == 'robust':
        from . import c03
        return c03.judge_robust(case, kwargs, cand, ans)
    o = ans['obs']
    if info.get('kind') == 'fix_present':
        f = o['fix_present']
        pinned = abs(f['l'] - f['xbar']) < 1e-9 and abs(f['u'] - f['xbar']) < 1e-9
        free = abs(f['l'] - f['base_l']) < 1e-9 and abs(f['u'] - f['base_u']) < 1e-9
        present = int(info['key'][2]) < kwargs['boundary']
        if present and not pinned:
            return True, 'variable %s %s belongs to the present stage but fixing the present leaves it free: bounds [%g, %g], value to fix %g' % (f['i'], info['key'], f['l'], f['u'], f['xbar'])
        if not present and not free:
            return True, 'variable %s %s belongs to the future but fixing the present changes its bounds to [%g, %g]' % (f['i'], info['key'], f['l'], f['u'])
        return False, 'fixing the present pins exactly the present stage on the unshimmed code'
    if kwargs.get('kind') == 'costs':
        a, b = o['sample'], o['c']
        if len(a) != len(b):
            return True, 'cost sample has %d entries, the cost vector of the scenario problem %d' % (len(a), len(b))
        bad = [(i, a[i], b[i]) for i in range(len(a)) if abs(a[i] - b[i]) > 1e-7 * max(1.0, abs(a[i]), abs(b[i]))]
        return (True, 'cost sample differs from the cost vector of the problem set up with the same prices: %s' % bad[:3]) if bad else (False, 'identical on the unshimmed code')
    if info.get('kind') in ('blocks', 'present'):
        return True, 'SLP variable blocks do not correspond to present / per-scenario future variables'
    bad, text = embed_lp.judge_values(o.get('v_slp'), o.get('s_slp'), o.get('v_two_stage'), o.get('s_two_stage'), '==',
                                      what=('make_slp problem', 'independently assembled two-stage program'))
    if bad:
        return True, text
    k = info.get('kind')
    if 'res_slp' in o:
        if k == 'slp2scen' and o['res_slp'] <= 1e-6 and max(o['res_scen']) > 1e-6:
            return True, 'a feasible point of the make_slp problem violates the base problem in scenario %d (residual %.6g)' % (int(np.argmax(o['res_scen'])), max(o['res_scen']))
        if k == 'scen2slp' and max(o['res_scen']) <= 1e-6 and o['res_slp'] > 1e-6:
            return True, 'a point feasible in every scenario is infeasible for the make_slp problem (residual %.6g)' % o['res_slp']
        if k == 'value' and abs(o['val_slp'] - o['val_mean']) > 1e-6 * max(1, abs(o['val_mean'])):
            return True, 'make_slp objective %.8g, mean of the scenario values %.8g at the same point' % (o['val_slp'], o['val_mean'])
    per = [v for v in o.get('per_scenario', []) if v is not None]
    if per and o.get('v_slp') is not None and o['v_slp'] > sum(per) / len(per) + 1e-6 * max(1, abs(o['v_slp'])):
        return True, 'SLP optimum %.8g exceeds the mean of the per-scenario optima %.8g' % (o['v_slp'], sum(per) / len(per))
    return False, text
