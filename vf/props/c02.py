"""C02 Assembled LP means what the asset documentation says: optimal-value equivalence with an independently written
textbook formulation (vf/refmodel.py), and every dispatch EAO can return is feasible for that reference.

Decided by two embeddings per (shape, path) -- see vf/embed_ref.py -- with all capacities, sizes, levels, inflow, costs,
both price series per step, take volumes and the discount rate symbolic (efficiencies / commodity factors generic concrete
rationals at Level A, symbolic at Level B).
"""
from .. import scen, common, sym, lpsem, lift, embed_ref, shapes

from . import c17 as _c17      # registers the shape 'slp_transport' (transport with cost series, forward / reverse)

PROP = 'C02'
SHAPE_OF = {}


def _c(cid, shape, kw, level='A'):
    SHAPE_OF[cid] = shape
    return (cid, kw, level)


QUICK = [
    _c('contract_storage', 'contract_storage', dict(T=3)),
    _c('contract_storage_wacc_halfhour', 'contract_storage', dict(T=3, freq='30min', unit='h', wacc=True)),
    _c('contract_storage_day_unit', 'contract_storage', dict(T=2, freq='d', unit='d', wacc=True)),
    _c('storage_onevar', 'contract_storage', dict(T=3, eff=None, wacc=True, storage_kw=dict(costs=False))),
    _c('storage_onevar_cstore', 'contract_storage', dict(T=3, eff=None, wacc=True, storage_kw=dict(costs='store'))),
    _c('two_node', 'two_node', dict(T=2, wacc=True)),
    _c('two_node_2n_storage', 'two_node', dict(T=2, two_node_storage=True)),
    _c('multicommodity_take', 'multicommodity', dict(T=3, take=(1, 3))),
    _c('take_inside', 'contract_take', dict(T=4, take=(1, 3))),
    _c('take_straddles_end', 'contract_take', dict(T=3, take=(1, 6))),
    _c('take_dates_in_utc_on_cet_grid', 'contract_take', dict(T=4, freq=('h', '2021-01-04 00:00', '2021-01-04 04:00', 'CET'), take=(1, 3), take_tz='UTC')),
    _c('take_dates_in_us_eastern_on_cet_grid_straddling', 'contract_take', dict(T=4, freq=('h', '2021-01-04 00:00', '2021-01-04 04:00', 'CET'), take=(2, 7), take_tz='US/Eastern')),
    _c('take_straddles_window', 'contract_take', dict(T=4, take=(0, 4), win=(1, 3))),
    _c('ext_transport', 'ext_transport', dict(T=3)),
    _c('caps_timeseries', 'caps_ts', dict(T=3)),
    _c('window_storage', 'contract_storage', dict(T=4, win_s=(1, 3), win_c=(0, 3))),
    _c('reverse_transport_costs', 'slp_transport', dict(T=3, reverse=True)),
    _c('forward_transport_cost_series', 'slp_transport', dict(T=3)),
    _c('multicommodity_three_nodes_take', 'multicommodity', dict(T=2, factors=(1.0, 0.5, 2.0), take=(0, 2))),
    _c('window_last_step_only', 'contract_storage', dict(T=4, win_s=(3, 4), win_c=(0, 1))),
    _c('window_between_grid_points', 'contract_storage', dict(T=4, win_s=(0.5, 2.5), win_c=(1, 3.25), wacc=True)),
    _c('caps_interval_data', 'caps_dict', dict(T=4, wacc=True)),
    _c('mixed_discount_rates', 'mixed_wacc', dict(T=3, freq='d', unit='d')),
    _c('caps_interval_data_cet', 'caps_dict', dict(T=4, tz='CET')),
]
THOROUGH = QUICK + [
    _c('contract_storage_T4', 'contract_storage', dict(T=4, wacc=True)),
    _c('contract_storage_B', 'contract_storage', dict(T=2), 'B'),
    _c('two_node_T3', 'two_node', dict(T=3, wacc=True)),
    _c('two_node_B', 'two_node', dict(T=2), 'B'),
    _c('two_node_2n_storage_T3_min_unit', 'two_node', dict(T=3, two_node_storage=True, freq='15min', unit='min', wacc=True)),
    _c('multicommodity_take_win', 'multicommodity', dict(T=4, take=(0, 6), win=(1, 4))),
    _c('multicommodity_B', 'multicommodity', dict(T=2, take=(0, 2)), 'B'),
    _c('take_straddles_start', 'contract_take', dict(T=3, take=(-2, 2))),
    _c('take_outside', 'contract_take', dict(T=3, take=(5, 7))),
    _c('take_noextra', 'contract_take', dict(T=4, take=(1, 6), extra=False)),
    _c('ext_transport_T4', 'ext_transport', dict(T=4, take=(1, 6))),
    _c('caps_timeseries_T4', 'caps_ts', dict(T=4, wacc=True)),
    _c('window_straddle', 'contract_storage', dict(T=3, win_s=(-1, 2), wacc=True)),
    _c('day_grid_day_unit_T3', 'two_node', dict(T=3, freq='d', unit='d', wacc=True)),
]
GRIDV_QUICK = [('two_node', 'day_d_cet_dst'), ('take_inside', 'month_d'), ('storage_onevar_cstore', 'day_h_useast_fall'), ('storage_onevar', 'day_d_leap'), ('two_node', 'month_d_yearend')]
BOUNDS = dict(quick='shapes %s; T<=4; Level A (efficiencies/factors generic concrete)' % [c[0] for c in QUICK],
              thorough='shapes %s; T<=4; Level B for the *_B shapes' % [c[0] for c in THOROUGH])
OUTSIDE = ['MIP storages, CHP/Plant, order books (C06, C20)', 'negative / mixed-sign transport capacities (EAO raises NotImplementedError)',
           'horizons beyond T=4']
ASSUMPTIONS = ['the feasibility half is proven for every EAO-feasible point, which is stronger than "the optimal dispatch is feasible for the reference"',
               'take volumes are prorated by the duration of the asset\'s active steps inside the period',
               'the constant part of the holding cost on start level and inflow is documented as not included']
TRUSTED = ['vf/refmodel.py (reference model; imports nothing from eaopack)']


def cases(tier, seed):
    lst = THOROUGH if tier == 'thorough' else QUICK
    from .. import shapes
    var = []
    for cid, kw, level in lst:
        if 'freq' in kw or 'unit' in kw or 'tz' in kw or level == 'B':
            continue
        for gv in shapes.GRID_VARIANTS:
            if tier == 'thorough' or (cid, gv) in GRIDV_QUICK:
                var.append(('%s@%s' % (cid, gv), dict(kw, gridv=gv), level))
    out = [(cid, dict(shape=SHAPE_OF[cid.split('@')[0]], kw=dict(kw), level=level)) for cid, kw, level in lst + var]
    # assets with their own coarser frequency (volume limit = rate x covered length of the coarse interval): the reference is the real
    # fine problem plus the constant-rate equalities (C13 machinery)
    out.append(('coarse_contract_straddles_horizon_end', dict(shape='-', kw={}, level='coarse13', c13=dict(opt='coarse', kind='contract', T=5, win=(2, 9), ec=True))))
    out.append(('coarse_storage', dict(shape='-', kw={}, level='coarse13', c13=dict(opt='coarse', kind='storage', T=4, eff=0.75))))
    out.append(('coarse_take_contract', dict(shape='-', kw={}, level='coarse13', c13=dict(opt='coarse', kind='take', T=4))))
    out.append(('coarse_take_contract_last_interval_shorter', dict(shape='-', kw={}, level='coarse13', c13=dict(opt='coarse', kind='take', T=5))))
    out.append(('coarse_contract_discounted', dict(shape='-', kw={}, level='coarse13', c13=dict(opt='coarse', kind='contract', T=4, ec=True, wacc=True, freq='d', coarse='2d'))))
    out.append(('coarse_transport_discounted', dict(shape='-', kw={}, level='coarse13', c13=dict(opt='coarse', kind='transport', T=4, eff=0.5, costs=True, wacc=True, freq='d', coarse='2d'))))
    # sequences of calls on the same objects (decided with C10's history machinery: the final problem equals that of fresh objects)
    # -- the same objects set up a second time: quantities of a take period reaching beyond the horizon are prorated once
    out.append(('history_take_quantities_given_as_array_second_setup', common.delegated('c10', pf='dicts', final='h', histories=[['same'], ['short']])))
    return out


def run_case(case_id, tier, seed, shape, kw, level, c13=None):
    if level == 'coarse13':
        from . import c13 as _c13
        res = _c13.run_case(case_id, tier, seed, **c13)
        res['prop'] = PROP
        return res
    rec = lpsem.Rec(PROP, case_id)
    if level == 'B':
        # fully symbolic (bilinear) queries: short per-query budget; an `unknown` is never a pass -- the case is re-decided at
        # Level A (coefficient parameters instantiated) and reported as downgraded
        rec.timeout_ms = 8000
        _run(rec, seed, shape, kw, 'B', stop_on_unknown=True)
        unknown = [o for o in rec.obligations if o['verdict'] == 'unknown']
        if not unknown:
            return rec.result()
        rec2 = lpsem.Rec(PROP, case_id)
        rec2.note('Level B inconclusive (%d queries unknown within 8 s/16 s): re-decided at Level A with eff/factors instantiated' % len(unknown))
        rec2.extra['downgraded_to_level_A'] = 1
        rec2.solver_s += rec.solver_s
        _run(rec2, seed, shape, kw, 'A')
        return rec2.result()
    _run(rec, seed, shape, kw, level)
    return rec.result()


def _run(rec, seed, shape, kw, level, stop_on_unknown=False):
    res = scen.explore(shape, kw, level=level, with_output=False)
    rec.paths = len(res)
    validated = False
    for pi, (path, D) in enumerate(res):
        P = 'p%d' % pi
        if path.exc is not None:
            if common.is_rejection(path.exc):
                rec.rejected_paths += 1
                continue
            common.crash_candidate(rec, P + '/crash', path, D)
            continue
        sc = path.result
        embed_ref.check(rec, P, D, path, sc.sh, sc.op)
        if stop_on_unknown and any(o['verdict'] == 'unknown' for o in rec.obligations):
            return
        if not validated:
            validated = scen.validation_request(rec, sc, D, path, seed)


def observe(case, kwargs, env, rq):
    if kwargs.get('level') == 'coarse13':
        from . import c13 as _c13
        return _c13.observe(case, kwargs['c13'], env, rq)
    D = lift.Domain(theta=env)
    sc = scen.run(D, kwargs['shape'], kwargs.get('kw'), None, False, env=env)
    if rq.get('kind') != 'replay':
        return scen.observation(sc)
    return embed_ref.observe(sc.sh, sc.op, env, rq)


def judge(case, kwargs, cand, ans):
    if kwargs.get('level') == 'coarse13':
        from . import c13 as _c13
        return _c13.judge(case, kwargs['c13'], cand, ans)
    if cand.get('form') == 'crash' or 'crash' in cand.get('info', {}):
        return (True, 'raises on an in-domain input: ' + ans['error'][:200]) if 'error' in ans else (False, 'no exception')
    return embed_ref.judge(cand, ans)
