"""C15 Fixing a time window pins exactly that part of the solution.

x_prev is a symbolic vector assumed feasible for the original problem (solver contract).  The real set-up code is run again with
fix_time_window = {'I': mask or date, 'x': x_prev} and NEW symbolic prices.  Obligations:
  Q2  l'_i = u'_i = x_prev_i for every variable having a mapping row whose step lies in the window, every other l_i,u_i equals the
      fresh problem's; A, b, cType, mapping equal the fresh problem's; c' equals the cost vector of a fresh set-up with the new prices
  Q1  x_prev is feasible for the rebuilt problem with unchanged prices (=> the optimal value is unchanged), and every feasible point
      of the rebuilt problem coincides with x_prev on the window variables.
The window (mask / date, incl. dates between grid points) is structure; window membership is recomputed by the harness.
"""
import numpy as np
import pandas as pd
import z3

from .. import scen, common, sym, lpsem, lift, shapes
from ..sym import Sym, lift as zl
from ..shims import to_dense

PROP = 'C15'
SHAPE_OF = {}


def _c(cid, shape, kw, win):
    SHAPE_OF[cid] = shape
    return (cid, kw, win)


QUICK = [
    _c('contract_storage_mask', 'contract_storage', dict(T=4), ('mask', [1, 1, 0, 0])),
    _c('two_node_mask_middle', 'two_node', dict(T=3), ('mask', [0, 1, 0])),
    _c('two_node_date_on_grid', 'two_node', dict(T=3), ('date', 1, 0)),
    _c('two_node_date_between', 'two_node', dict(T=3), ('date', 1, 40)),
    _c('multicommodity_mask', 'multicommodity', dict(T=3, take=(0, 3)), ('mask', [1, 0, 1])),
    _c('plant_fuel_mask', 'plant', dict(T=3, fuel=True, mr=2), ('mask', [1, 1, 0])),
    _c('coarse_contract_mask_inside_interval', 'coarse', dict(T=4, kind='contract'), ('mask', [0, 1, 1, 0])),
    _c('coarse_transport_mask_second_half', 'coarse', dict(T=4, kind='transport', eff=0.5), ('mask', [0, 1, 0, 0])),
    _c('orderbook_mask', 'orderbook', dict(T=3), ('mask', [0, 0, 1])),
    _c('periodic_contract_mask', 'periodic', dict(T=4, kind='contract'), ('mask', [0, 0, 1, 0])),
    _c('two_node_mask_as_list', 'two_node', dict(T=3), ('mask_list', [0, 1, 1])),
    _c('two_node_integer_indices', 'two_node', dict(T=3), ('indices', [0, 2])),
    _c('two_node_integer_indices_list_unordered', 'two_node', dict(T=4), ('indices_list', [3, 1])),
    _c('two_node_pandas_timestamp', 'two_node', dict(T=3), ('timestamp', 1, 30)),
    _c('scaled_mask_first_step', 'scaled', dict(T=3, base='storage'), ('mask', [1, 0, 0])),
    _c('scaled_periodic_base_first_step', 'scaled', dict(T=5, base='periodic_contract'), ('mask', [1, 0, 0, 0, 0])),
    _c('scaled_mask_later_step', 'scaled', dict(T=3, base='transport'), ('mask', [0, 0, 1])),
]
THOROUGH = QUICK + [
    _c('contract_storage_date_late', 'contract_storage', dict(T=4, wacc=True), ('date', 2, 59)),
    _c('contract_storage_all', 'contract_storage', dict(T=3), ('mask', [1, 1, 1])),
    _c('contract_storage_none', 'contract_storage', dict(T=3), ('mask', [0, 0, 0])),
    _c('two_node_2n_storage_mask', 'two_node', dict(T=3, two_node_storage=True), ('mask', [1, 0, 0])),
    _c('chp_mask', 'plant', dict(T=3, fuel=True, heat=True), ('mask', [0, 1, 1])),
    _c('scaled_mask', 'scaled', dict(T=3, base='storage'), ('mask', [0, 1, 0])),
    _c('structured_mask', 'structured', dict(T=3), ('mask', [1, 1, 0])),
    _c('coarse_storage_mask', 'coarse', dict(T=4, kind='storage', eff=0.75), ('mask', [0, 0, 0, 1])),
    _c('ext_transport_date', 'ext_transport', dict(T=3), ('date', 0, 30)),
    _c('halfhour_date', 'contract_storage', dict(T=4, freq='30min'), ('date', 1, 29)),
    # deeper: five steps, several fixed steps, discounting
    _c('contract_storage_T5_mask_wacc', 'contract_storage', dict(T=5, wacc=True), ('mask', [1, 1, 0, 0, 0])),
    _c('two_node_T5_date_between', 'two_node', dict(T=5), ('date', 2, 45)),
    _c('scaled_transport_all_but_last', 'scaled', dict(T=4, base='transport'), ('mask', [1, 1, 1, 0])),
    _c('structured_T4_non_contiguous_mask', 'structured', dict(T=4), ('mask', [1, 0, 1, 0])),
]
BOUNDS = dict(quick='shapes %s; windows as index masks and as dates (on / between grid points); T<=4' % [c[0] for c in QUICK],
              thorough='shapes %s' % [c[0] for c in THOROUGH])
OUTSIDE = ['fixing to the x of an SLP (longer vector)']
ASSUMPTIONS = ['x_prev is feasible for the original problem (what the optimiser returns, C03)',
               'a date window contains the steps whose grid point is <= the date (docstring: "all dates before date taken")']


# split set-up with a fixed window (the window and the values refer to the whole horizon) and re-use of one dictionary object
EXTRA = [
    ('split_two_node_mask', 'two_node', dict(T=4), ('mask', [1, 1, 1, 0]), dict(split='2h')),
    ('split_contract_storage_date', 'contract_storage', dict(T=4, storage_kw=dict(start_eq_end=True)), ('date', 2, 30), dict(split='2h')),
    ('split_two_node_date_on_grid_point', 'two_node', dict(T=4), ('date', 2, 0), dict(split='2h')),
    ('split_first_interval_without_assets_date', 'windows', dict(T=6, wins=((2, 6), (2, 5), (3, 6))), ('date', 3, 0), dict(split='2h')),
    ('split_first_interval_without_assets_mask', 'windows', dict(T=6, wins=((2, 6), (2, 5), (3, 6))), ('mask', [1, 1, 1, 0, 1, 0]), dict(split='2h')),
    ('split_two_node_date_on_interval_border', 'two_node', dict(T=4), ('date', 1, 0), dict(split='2h')),
    ('split_orderbook_last_mask', 'orderbook', dict(T=4, ob_last=True, orders=((0, 1, 2.0), (2, 4, -1.5), (3, 4, 1.0))), ('mask', [0, 1, 1, 0]), dict(split='2h')),
    ('storage_starts_after_window_no_simult', 'contract_storage', dict(T=4, win_s=(2, 4), storage_kw=dict(no_simult_in_out=True)), ('mask', [1, 1, 0, 0]), {}),
    ('plant_starts_inside_window', 'plant', dict(T=4, fuel=True, mr=2, win=(1, 4)), ('mask', [1, 1, 0, 0]), {}),
    # dates that coincide with a grid point on grids whose step is not exactly representable in the main time unit (10 min in hours, 1 h in days)
    ('date_on_grid_point_10min_k2', 'two_node', dict(T=6, freq='10min', unit='h'), ('date', 2, 0), {}),
    ('date_on_grid_point_10min_k4', 'two_node', dict(T=6, freq='10min', unit='h'), ('date', 4, 0), {}),
    ('date_on_grid_point_hours_in_days_k3', 'two_node', dict(T=6, freq='h', unit='d'), ('date', 3, 0), {}),
    ('date_on_grid_point_hours_in_days_k5', 'two_node', dict(T=6, freq='h', unit='d'), ('date', 5, 0), {}),
    ('plant_min_cap_column_zero_in_new_data', 'plant_mincap_col', dict(T=3), ('mask', [1, 1, 0]), {}),
    ('zone_aware_grid_date', 'two_node', dict(T=4, gridv='hour_cet_dst'), ('date', 2, 0), {}),
    ('dst_repeated_hour_first_occurrence', 'two_node', dict(T=6, freq=('h', '2021-10-31 00:00', '2021-10-31 05:00', 'CET')), ('date', 2, 0), {}),
    ('dst_repeated_hour_second_occurrence', 'two_node', dict(T=6, freq=('h', '2021-10-31 00:00', '2021-10-31 05:00', 'CET')), ('date', 3, 30), {}),
    ('zone_aware_grid_date_in_utc', 'two_node', dict(T=4, gridv='hour_cet_dst'), ('date_utc', 1, 0), {}),
    ('zone_aware_grid_naive_date', 'two_node', dict(T=4, gridv='hour_cet_dst'), ('date_naive', 2, 0), {}),
    ('same_dictionary_after_shorter_grid_date', 'two_node', dict(T=3), ('date', 1, 0), dict(reuse=True)),
    ('same_dictionary_after_shorter_grid_date_storage', 'contract_storage', dict(T=3), ('date', 0, 30), dict(reuse=True)),
]
EXTRA_THOROUGH = [
    ('split_unequal_intervals_date', 'two_node', dict(T=5, freq='6h', unit='h'), ('date', 2, 0), dict(split='d')),
    ('split_plant_mask', 'plant', dict(T=4, fuel=True, mr=2), ('mask', [1, 1, 1, 0]), dict(split='2h')),
]


def cases(tier, seed):
    lst = THOROUGH if tier == 'thorough' else QUICK
    out = [(cid, dict(shape=SHAPE_OF[cid], kw=dict(kw), win=list(win))) for cid, kw, win in lst]
    for cid, shape, kw, win, opt in EXTRA + (EXTRA_THOROUGH if tier == 'thorough' else []):
        out.append((cid, dict(shape=shape, kw=dict(kw), win=list(win), **opt)))
    return out


def window_arg(tg, win):
    """(argument for fix_time_window['I'], set of steps in the window recomputed independently)"""
    if win[0] == 'mask':
        m = np.array([bool(v) for v in win[1]])
        return m, {t for t in range(tg.T) if m[t]}
    if win[0] == 'mask_list':             # the same as a plain python list of booleans
        return [bool(v) for v in win[1]], {t for t in range(tg.T) if win[1][t]}
    if win[0] == 'indices':               # time steps given as an array of indices
        return np.array([int(v) for v in win[1]]), {int(v) for v in win[1]}
    if win[0] == 'indices_list':
        return [int(v) for v in win[1]], {int(v) for v in win[1]}
    if win[0] == 'timestamp':             # a pandas Timestamp instead of a datetime
        d_ = tg.timepoints[win[1]] + pd.Timedelta(minutes=win[2])
        return pd.Timestamp(d_), {t for t in range(tg.T) if tg.timepoints[t] <= d_}
    k, minutes = win[1], win[2]
    d = (tg.timepoints[k] + pd.Timedelta(minutes=minutes))
    steps = {t for t in range(tg.T) if tg.timepoints[t] <= d}
    if win[0] == 'date_utc':
        # the same instant written in another time zone
        return d.tz_convert('UTC').to_pydatetime(), steps
    if win[0] == 'date_naive':
        # wall-clock date without zone on a zone-aware grid (as accepted for the windows of assets)
        return d.tz_localize(None).to_pydatetime(), steps
    return d.to_pydatetime(), steps


class _Cat:
    """the interval problems of a split set-up seen as one problem: vectors concatenated, rows block-diagonal, the global mapping"""

    def __init__(self, sop):
        ops = sop.ops
        self.c = np.concatenate([np.asarray(o.c, dtype=object).reshape(-1) for o in ops])
        self.l = np.concatenate([np.asarray(o.l, dtype=object).reshape(-1) for o in ops])
        self.u = np.concatenate([np.asarray(o.u, dtype=object).reshape(-1) for o in ops])
        n = len(self.c)
        blocks, off = [], 0
        for o in ops:
            A = to_dense(o.A)
            k = len(o.c)
            if A is not None and A.shape[0]:
                B = np.zeros((A.shape[0], n), dtype=object)
                B[:, off:off + k] = A
                blocks.append(B)
            off += k
        self.A = np.vstack(blocks) if blocks else None
        self.b = np.concatenate([np.asarray(o.b, dtype=object).reshape(-1) for o in ops if o.b is not None and len(o.b)]) if blocks else None
        self.cType = ''.join(o.cType or '' for o in ops)
        self.mapping = sop.mapping
        self.map_nodal_restr = None


def scenario(D, shape, kw, win, env=None, split=None, reuse=False):
    eao = lift.import_eao()
    sh = shapes.build_portfolio(D, shape, **kw)
    tg = sh.tg

    def setup(prices, **fw):
        if split is None:
            return sh.portf.setup_optim_problem(prices, tg, **fw)
        return _Cat(sh.portf.setup_split_optim_problem(pd.DataFrame(prices), tg, interval_size=split, **fw))
    op0 = setup(sh.prices)
    n = len(op0.c)
    xprev = common.sym_x(n, 'x') if D.symbolic else common.concrete_x(env, n, 'x')
    newp = {}
    for k, v in sh.prices.items():
        if k in ('capmin', 'capmax', 'ecs'):
            newp[k] = v
        elif k == 'mincap':
            newp[k] = np.zeros(len(v))          # the new data set has no minimum capacity any more (the variables of the problem must stay the same)
        else:
            newp[k] = D.arr('new_' + k, len(v))
    arg, steps = window_arg(tg, win)
    if reuse:
        # ONE dictionary object for all calls, used on a shorter grid first: the user's dictionary must still mean the same afterwards
        d = {'I': arg, 'x': xprev}
        tg_short = eao.assets.Timegrid(tg.start, tg.timepoints[tg.T - 1], freq=tg.freq, main_time_unit=tg.main_time_unit, timezone=tg.tz)
        sh.portf.setup_optim_problem({k: v[:tg_short.T] for k, v in sh.prices.items()}, tg_short, fix_time_window=d)
        op_same = setup(sh.prices, fix_time_window=d)
        op_new = setup(newp, fix_time_window=d)
    else:
        op_same = setup(sh.prices, fix_time_window={'I': arg.copy() if hasattr(arg, 'copy') else arg, 'x': xprev.copy()})
        arg, steps = window_arg(tg, win)
        op_new = setup(newp, fix_time_window={'I': arg.copy() if hasattr(arg, 'copy') else arg, 'x': xprev.copy()})
    op_fresh_new = setup(newp)
    return sh, op0, xprev, op_same, op_new, op_fresh_new, steps


def run_case(case_id, tier, seed, shape, kw, win, split=None, reuse=False):
    rec = lpsem.Rec(PROP, case_id)

    def build(D):
        return scenario(D, shape, kw, win, split=split, reuse=reuse)
    res = lift.explore_build(build, level='A')
    rec.paths = len(res)
    validated = False
    for pi, (path, D) in enumerate(res):
        P = 'p%d' % pi
        if path.exc is not None:
            if common.is_rejection(path.exc):
                rec.rejected_paths += 1
                continue
            common.crash_candidate(rec, P + '/crash', path, D, info=dict(kind='crash'))
            continue
        sh, op0, xprev, op_same, op_new, op_fresh_new, steps = path.result
        L0, Ls, Ln, Lf = lpsem.LP(op0), lpsem.LP(op_same), lpsem.LP(op_new), lpsem.LP(op_fresh_new)
        base = list(D.pre) + path.pc + sym.atom_constraints()
        x = [zl(v) for v in xprev]
        if rec.vacuity(P, base + L0.feas(x)) is None:
            continue
        n = L0.n
        # which step an internal (boolean) variable belongs to is cross-checked against the rows it occurs in (not only read from the mapping)
        conf = common.internal_step_conflicts(op0)
        nm_ = P + '/internal_variable_steps'
        rec.obligations.append(dict(name=nm_, verdict='sat' if conf else 'unsat', secs=0, form='Q2'))
        rec.distinct.add(nm_)
        if conf:
            rec.candidates.append(dict(name=nm_, env=common.generic_point(base, D.names, seed) or {}, info=dict(kind='internal_steps', conflicts=[list(map(str, c)) for c in conf[:4]]), form='struct'))
            continue
        # a variable the mapping does not mention cannot be attributed to a step at all: it must be inert (no cost, in no row)
        mapped_idx = {int(i) for i in op0.mapping.index}
        loose = [i for i in range(n) if i not in mapped_idx and (not z3.is_true(z3.simplify(L0.c[i] == 0)) or any(i in co for co, ty, rhs in L0.rows))]
        nm_ = P + '/every_active_variable_is_mapped'
        rec.obligations.append(dict(name=nm_, verdict='sat' if loose else 'unsat', secs=0, form='Q2'))
        rec.distinct.add(nm_)
        if loose:
            rec.candidates.append(dict(name=nm_, env=common.generic_point(base, D.names, seed) or {}, info=dict(kind='unmapped_active', variables=loose), form='struct'))
            continue
        # window variables: any mapping row in the window (harness)
        wvars = set()
        mp = op0.mapping
        for i, t in zip(mp.index, mp['time_step']):
            if int(t) in steps:
                wvars.add(int(i))
        goals = []
        for tag, L, Lref in (('same', Ls, L0), ('new', Ln, Lf)):
            if L.n != n or len(L.rows) != len(Lref.rows) or L.cType != Lref.cType:
                goals.append(('%s/shape' % tag, z3.BoolVal(False), dict(kind='shape', tag=tag)))
                continue
            for i in range(n):
                if i in wvars:
                    goals.append(('%s/pinned_l[%d]' % (tag, i), L.l[i] == x[i], dict(kind='pinned', i=i, tag=tag)))
                    goals.append(('%s/pinned_u[%d]' % (tag, i), L.u[i] == x[i], dict(kind='pinned', i=i, tag=tag)))
                else:
                    goals.append(('%s/free_l[%d]' % (tag, i), L.l[i] == Lref.l[i], dict(kind='free', i=i, tag=tag)))
                    goals.append(('%s/free_u[%d]' % (tag, i), L.u[i] == Lref.u[i], dict(kind='free', i=i, tag=tag)))
                goals.append(('%s/c[%d]' % (tag, i), L.c[i] == Lref.c[i], dict(kind='cost', i=i, tag=tag)))
            for r, ((co, ty, rhs), (co2, ty2, rhs2)) in enumerate(zip(L.rows, Lref.rows)):
                same = set(co) == set(co2) and all(z3.simplify(co[j]).eq(z3.simplify(co2[j])) for j in co)
                if not same:
                    cond = z3.And(*[co.get(j, z3.RealVal(0)) == co2.get(j, z3.RealVal(0)) for j in set(co) | set(co2)])
                    goals.append(('%s/row[%d]' % (tag, r), cond, dict(kind='row', r=r, tag=tag)))
                goals.append(('%s/b[%d]' % (tag, r), rhs == rhs2, dict(kind='rhs', r=r, tag=tag)))
        trivial = [g for g in goals if z3.is_true(z3.simplify(g[1]))]
        todo = [g for g in goals if not z3.is_true(z3.simplify(g[1]))]
        rec.extra['identities_syntactic'] = rec.extra.get('identities_syntactic', 0) + len(trivial)
        rec.obligations.append(dict(name=P + '/syntactic_%d' % len(trivial), verdict='unsat', secs=0, form='Q2'))
        rec.distinct.add(P + '/syntactic')
        rec.twin(P + '/identities', base, z3.BoolVal(False))
        rec.prove_each(P + '/identity', base, todo, form='Q2', info=dict(kind='identity'))
        # semantic consequences
        assume = base + L0.feas(x)
        rec.prove(P + '/xprev_feasible', assume, z3.And(*Ls.feas(x)), form='Q1', info=dict(kind='xprev_feasible'))
        y = Ls.mk_x('y')
        if wvars:
            rec.prove(P + '/pins', assume + Ls.feas(y), z3.And(*[y[i] == x[i] for i in sorted(wvars)]), form='Q1', info=dict(kind='pins'))
        if not validated:
            from .. import obs
            names = list(D.names) + ['x%d' % i for i in range(n)]
            env = common.generic_point(assume, names, seed)
            if env is not None:
                for nm in names:
                    env.setdefault(nm, 0.0)
                rec.validations.append(dict(env=env, lifted=obs.to_jsonable(dict(same=obs.problem_obs(op_same), new=obs.problem_obs(op_new)), env)))
                validated = True
    return rec.result()


def observe(case, kwargs, env, rq):
    from .. import obs
    D = lift.Domain(theta=env)
    sh, op0, xprev, op_same, op_new, op_fresh_new, steps = scenario(D, kwargs['shape'], kwargs['kw'], kwargs['win'], env=env, split=kwargs.get('split'), reuse=kwargs.get('reuse', False))
    o = dict(same=obs.problem_obs(op_same), new=obs.problem_obs(op_new))
    if rq.get('kind') == 'replay':
        o['orig'] = obs.problem_obs(op0)
        o['fresh_new'] = obs.problem_obs(op_fresh_new)
        o['steps'] = sorted(steps)
        o['xprev'] = list(xprev)
    return o


def judge(case, kwargs, cand, ans):
    info = cand.get('info', {})
    if cand.get('form') == 'crash' or 'crash' in info:
        return (True, 'raises on an in-domain input: ' + ans['error'][:200]) if 'error' in ans else (False, 'no exception')
    if 'error' in ans:
        return None, ans['error']
    o = ans['obs']
    if info.get('kind') == 'internal_steps':
        return common.judge_internal_steps(o['orig'])
    if info.get('kind') == 'unmapped_active':
        p_ = o['orig']
        mi = {m['index'] for m in p_['mapping']}
        bad = [i for i in range(len(p_['c'])) if i not in mi and (abs(p_['c'][i]) > 0 or any(abs(row[i]) > 0 for row in p_['A']))]
        return (True, 'variables %s have costs / occur in rows but no mapping row: a fixed window cannot decide whether they belong to it' % bad) if bad \
            else (False, 'every active variable has a mapping row on the unshimmed code')
    x = o['xprev']
    n = len(x)
    if scen.feasibility_residual(o['orig'], x) > 1e-6 and info.get('kind') in ('xprev_feasible', 'pins'):
        return False, 'witness x_prev infeasible for the unshimmed original problem'
    wv = {m['index'] for m in o['orig']['mapping'] if m['time_step'] in o['steps']}
    problems = []
    for tag, ref in (('same', 'orig'), ('new', 'fresh_new')):
        p, q = o[tag], o[ref]
        if len(p['c']) != n or p['cType'] != q['cType']:
            problems.append('%s: shape of the rebuilt problem differs' % tag)
            continue
        for i in range(n):
            tol = 1e-9 * max(1.0, abs(x[i]))
            if i in wv:
                if abs(p['l'][i] - x[i]) > tol or abs(p['u'][i] - x[i]) > tol:
                    problems.append('%s: variable %d belongs to the window but has bounds [%g, %g], previous value %g' % (tag, i, p['l'][i], p['u'][i], x[i]))
            else:
                if abs(p['l'][i] - q['l'][i]) > 1e-9 * max(1, abs(q['l'][i])) or abs(p['u'][i] - q['u'][i]) > 1e-9 * max(1, abs(q['u'][i])):
                    problems.append('%s: variable %d is outside the window but its bounds changed to [%g, %g] (free: [%g, %g])' % (tag, i, p['l'][i], p['u'][i], q['l'][i], q['u'][i]))
            if abs(p['c'][i] - q['c'][i]) > 1e-9 * max(1, abs(q['c'][i])):
                problems.append('%s: cost of variable %d is %g, fresh set-up gives %g' % (tag, i, p['c'][i], q['c'][i]))
        if p['A'] != q['A'] or any(abs(a - b) > 1e-9 * max(1, abs(b)) for a, b in zip(p['b'], q['b'])):
            same = all(abs(a - b) <= 1e-9 * max(1, abs(b)) for ra, rb in zip(p['A'], q['A']) for a, b in zip(ra, rb))
            if not same or any(abs(a - b) > 1e-9 * max(1, abs(b)) for a, b in zip(p['b'], q['b'])):
                problems.append('%s: rows of the rebuilt problem differ from the fresh problem' % tag)
    if problems:
        return True, '; '.join(problems[:3])
    return False, 'rebuilt problem pins exactly the window on the unshimmed code'
