"""C10 Building a problem is a pure function of parameters, prices and grid.

Bounded histories on SHARED asset / portfolio / grid objects (enumerated exhaustively up to the stated length), data symbolic:
  history  = sequence over {set-up on naive-hourly / CET / UTC / 15-min / shorter grids (each with its own prices), a second
             set-up on the very same grid object, split set-up, cost samples}                ending in a set-up call
  Q2  the problem the final call returns on the shared objects equals -- term by term, for all parameter values and prices -- the
      problem a freshly constructed identical portfolio returns for that call alone; a crash in a later call is a violation.
  non-interference: before the final call every cache a previous call may have left behind (grid.restricted,
      grid.discount_factors) is overwritten with poison; the result must not depend on it.
Parameters are given in every documented form: scalars, interval dictionaries with and without 'end' (naive date lists), take
dictionaries, price arrays; assets with own window, own frequency, own wacc, an order book, a scaled and a structured wrapper.
"""
import datetime as dt
import itertools

import numpy as np
import pandas as pd
import z3

from .. import scen, common, sym, lpsem, lift, shapes, obs
from ..sym import Sym, lift as zl
from ..shims import to_dense

PROP = 'C10'
GRIDS = {
    'h': dict(T=4, freq='h', tz=None),
    'cet': dict(T=4, freq='h', tz='CET'),
    'utc': dict(T=4, freq='h', tz='UTC'),
    'q15': dict(T=8, freq='15min', tz=None),
    'short': dict(T=2, freq='h', tz=None),
    'dunit': dict(T=4, freq='h', tz=None, unit='d'),
    'hshift': dict(T=4, freq='h', tz=None, shift_hours=1),   # same number of steps, one hour later: assets with fixed dates sit at other steps
    'day2': dict(T=4, freq='h', tz=None, shift_days=1),      # same instants, main time unit 'd' (rates per day, durations in days)
}
OPS = ['h', 'cet', 'utc', 'q15', 'short', 'dunit', 'same', 'split', 'costs', 'frame', 'wrapped', 'hshift']
FINALS = ['h', 'cet', 'q15', 'short', 'utc', 'dunit', 'frame_day2']
# the documented call form "time grid set before, not given to the set-up call": portfolio (also with a fixed time window) and every asset on its own
NOGRID_FINALS = ['h_nogrid', 'h_nogrid_assets']
# further final calls: a split set-up, and cost samples from a sample dictionary that the user refills between calls
OTHER_FINALS = ['h_split', 'h_costsample']
PORTFOLIOS = ['dicts', 'wrappers', 'orderbook', 'classes', 'linked']
NAIVE_ONLY = {'orderbook', 'classes', 'linked'}      # order dates are naive: EAO compares them with the grid points as they are
FOUR_STEPS_ONLY = {'arrays'}      # inputs with one value per step: operations / final calls on grids of another length are no valid inputs
ARRAY_OPS = ['h', 'cet', 'utc', 'dunit', 'same', 'costs', 'hshift']
ARRAY_FINALS = ['h', 'cet', 'dunit']


def cases(tier, seed):
    out = []
    L = 2 if tier == 'thorough' else 1
    for pfk in PORTFOLIOS + sorted(FOUR_STEPS_ONLY):
        ops_ = ARRAY_OPS if pfk in FOUR_STEPS_ONLY else [o for o in OPS if not (pfk in NAIVE_ONLY and o in ('cet', 'utc'))]
        for fin in (ARRAY_FINALS if pfk in FOUR_STEPS_ONLY else [f for f in FINALS if not (pfk in NAIVE_ONLY and f in ('cet', 'utc'))]):
            hs = [()]
            for k in range(1, L + 1):
                hs += list(itertools.product(ops_, repeat=k))
            # one case per (portfolio, final, first op): histories grouped to keep the number of processes reasonable
            groups = {}
            for h in hs:
                groups.setdefault(h[0] if h else '-', []).append(list(h))
            for g, lst in sorted(groups.items()):
                out.append(('%s_final_%s_first_%s' % (pfk, fin, g), dict(pf=pfk, final=fin, histories=lst)))
        if pfk in FOUR_STEPS_ONLY:
            continue
        for fin in OTHER_FINALS:
            out.append(('%s_final_%s' % (pfk, fin), dict(pf=pfk, final=fin, histories=[[], ['same'], ['costs']] + ([['split'], ['h', 'same']] if tier == 'thorough' else []))))
        for fin in NOGRID_FINALS:
            out.append(('%s_final_%s' % (pfk, fin), dict(pf=pfk, final=fin, histories=[[], ['q15']] + ([['wrapped']] if tier == 'thorough' else []))))
    return out


BOUNDS = dict(quick='portfolios %s; histories of length <= 1 over %s, finals %s (exhaustive)' % (PORTFOLIOS, OPS, FINALS),
              thorough='histories of length <= 2 (exhaustive: %d per portfolio and final)' % (1 + len(OPS) + len(OPS) ** 2))
OUTSIDE = ['optimise / serialise steps inside a history (they do not touch set-up state; serialisation after set-up is C11)',
           'histories longer than the bound', 'grids other than the six listed']


# ------------------------------------------------------------------------------------------------ objects
def mk_grid(key):
    g = GRIDS[key]
    eao = lift.import_eao()
    step = pd.Timedelta(g['freq']) if any(ch.isdigit() for ch in g['freq']) else pd.Timedelta(1, g['freq'])
    t0_ = pd.Timestamp(shapes.T0) + pd.Timedelta(days=g.get('shift_days', 0)) + pd.Timedelta(hours=g.get('shift_hours', 0))
    return eao.assets.Timegrid(t0_.to_pydatetime(), (t0_ + g['T'] * step).to_pydatetime(), freq=g['freq'], timezone=g['tz'], main_time_unit=g.get('unit', 'h'))


def mk_prices(D, key):
    T = GRIDS[key]['T']
    return {'p': D.arr('p_%s_' % key, T), 'q': D.arr('q_%s_' % key, T)}


def mk_portfolio(D, kind):
    eao = lift.import_eao()
    nA, nB = shapes.nodes('A', 'B')
    t0 = shapes.T0
    h = lambda k: t0 + dt.timedelta(hours=k)
    if kind == 'dicts':
        ct = eao.assets.Contract(name='ct', nodes=nA, price='p', min_cap=D('ct_min', hi=0),
                                 max_cap={'start': [h(0), h(2)], 'values': [D('ct_max0', lo=0), D('ct_max1', lo=0)]},
                                 extra_costs={'start': [h(0)], 'end': [h(2)], 'values': [D('ct_ec', lo=0)]},
                                 min_take={'start': [h(0)], 'end': [h(3)], 'values': [D('ct_mintake', hi=0)]},
                                 max_take={'start': [h(1)], 'end': [h(6)], 'values': np.array([D('ct_maxtake', lo=0)], dtype=object if D.symbolic else float)})      # quantities as numpy array; the period reaches beyond the horizon (prorated)
        co = shapes.mk_market(D, 'co', nA, 0, 'q', freq='h', wacc=D('wacc_co', lo=0))
        late = shapes.mk_market(D, 'late', nB, 0, 'q', wacc=D('wacc_late', lo=0))
        late.start, late.end = h(1), h(3)
        tr = shapes.mk_transport(D, 'tr', nA, nB, eff=0.5)
        return eao.portfolio.Portfolio([ct, co, tr, late])
    if kind == 'classes':
        # one asset of each further class, every one with its own window and/or discount rate, so that anything a previous asset left
        # on the shared grid (restricted grid, discount factors) would show in the next one
        nG = shapes.nodes('G')[0]
        tgh = mk_grid('h')
        pl = shapes.mk_plant(D, 'pl', [nA, nG], 0, price='p', fuel=True, heat=False, mr=2, ramp=True, tg=tgh, sym_cap=False,
                             start_ramp=((0.25, 0.5), (0.5, 1.0)), shutdown_ramp=((0.5,), (0.75,)))
        pl.start, pl.end, pl.wacc = h(1), h(4), D('wacc_pl', lo=0)
        mc = eao.assets.MultiCommodityContract(name='mc', nodes=[nA, nB], price='q', min_cap=D('mc_min', hi=0), max_cap=D('mc_max', lo=0),
                                               factors_commodities=[1.0, 0.5], start=h(0), end=h(3), wacc=D('wacc_mc', lo=0))
        # take quantities as numpy arrays (as the docstring describes), one array object shared by min_take and max_take bounds of the periods
        xt_vals = np.array([D('xt_take', lo=0), D('xt_take2', lo=0)], dtype=object if D.symbolic else float)
        xt = shapes.mk_transport(D, 'xt', nA, nB, eff=0.5, cls=eao.assets.ExtendedTransport,
                                 max_take={'start': np.array([h(0), h(2)]), 'end': np.array([h(2), h(4)]), 'values': xt_vals},
                                 min_take={'start': [h(1)], 'end': [h(3)], 'values': np.array([0.0])})
        xt.start, xt.end = h(1), h(3)
        st = shapes.mk_storage(D, 'sto', nB, eff=0.75)
        st.start, st.end, st.wacc = h(0), h(2), 0
        mG = shapes.mk_market(D, 'mG', nG, 0, 'p')
        mB = shapes.mk_market(D, 'mB', nB, 0, 'q', wacc=0)
        # a CHP with minimum-load costs whose need for on/off variables depends on the grid: a minimum runtime of one hour is one step on the
        # hourly grids (no on/off variables with a minimum capacity of zero) and four steps on the quarter-hour grid
        ml = eao.assets.CHPAsset_with_min_load_costs(name='ml', nodes=[nB], price='q', min_cap=0., max_cap=D('ml_max', lo=0), min_runtime=1,
                                                     min_load_threshhold=D('ml_thr', lo=0), min_load_costs=D('ml_mlc', lo=0), _no_heat=True)
        return eao.portfolio.Portfolio([pl, mc, xt, st, mG, mB, ml])
    if kind == 'linked':
        # LinkedAsset: lags given in main time units are converted to grid steps in every set-up (15-minute grid: 1 h = 4 steps)
        nP = shapes.nodes('P')[0]
        ga = shapes.mk_plant(D, 'ga', [nP], 0, price='p', fuel=False, mr=0, sym_cap=True)
        gb = shapes.mk_plant(D, 'gb', [nP], 0, price='q', fuel=False, mr=2, tar=1, sym_cap=True)
        la = eao.portfolio.LinkedAsset(eao.portfolio.Portfolio([ga, gb]), asset1_variable=('ga', 'disp', 'P'), asset2_variable=('gb', 'bool_on', None),
                                       name='link', nodes=nP, time_back=1, time_forward=1, asset2_time_already_running=1)
        m = shapes.mk_market(D, 'mP', nP, 0, 'p', ec=True)
        return eao.portfolio.Portfolio([la, m])
    if kind == 'orderbook':
        # the order book is handled right after an asset with its own window and discount rate (stale grid caches would show)
        m = shapes.mk_market(D, 'mB', nB, 0, 'p', ec=True)
        late = shapes.mk_market(D, 'late', nB, 0, 'q', wacc=D('wacc_late', lo=0))
        late.start, late.end = h(1), h(3)
        ob = shapes.mk_orderbook(D, 'ob', nB, mk_grid('h'), ((0, 2, 2.0), (1, 4, -1.5), (3, 4, 1.0)), wacc=D('wacc_ob', lo=0))
        return eao.portfolio.Portfolio([m, late, ob])
    if kind == 'arrays':
        # capacities given directly as numpy arrays with one value per step: only grids with four steps are valid inputs for these objects
        m = shapes.mk_market(D, 'mB', nB, 0, 'p', ec=True)
        caps = np.array([D('arr_cap%d' % k, lo=0) for k in range(4)], dtype=object if D.symbolic else float)
        arr = eao.assets.SimpleContract(name='arr', nodes=nB, price='q', min_cap=0., max_cap=caps, extra_costs=D('arr_ec', lo=0))
        return eao.portfolio.Portfolio([m, arr])
    if kind == 'wrappers':
        base = shapes.mk_storage(D, 'base', nA, eff=0.75)
        sc = eao.assets.ScaledAsset(name='sc', base_asset=base, min_scale=0., max_scale=D('smax', lo=0), norm_scale=2.0, fix_costs=D('fixc', lo=0),
                                    start=h(1), end=h(3))       # fix costs count over the scaled asset's own window
        ist = shapes.mk_storage(D, 'ist', nB, eff=None, costs=False)
        ist.start, ist.end = h(0), h(3)
        itr = shapes.mk_transport(D, 'itr', nB, nA, eff=0.5)
        inner = eao.portfolio.Portfolio([ist, itr])
        st = eao.portfolio.StructuredAsset(name='struct', nodes=nA, portfolio=inner, start=h(1), end=h(4))
        m = shapes.mk_market(D, 'mA', nA, 0, 'p', ec=True)
        return eao.portfolio.Portfolio([sc, st, m])
    raise KeyError(kind)


class Poison:
    """stands for whatever an earlier call may have left in a cache; any use of it is an interference"""

    def __getattr__(self, k):
        raise AssertionError('stale cache read: .%s of a cache left behind by an earlier call' % k)


def apply_op(pf, op, D, grids):
    if op in GRIDS:
        g = mk_grid(op)
        grids[op] = g
        return pf.setup_optim_problem(mk_prices(D, op), g)
    if op in ('frame', 'frame_day2'):
        # already gridded price data as ONE pandas DataFrame object (default index) that the user re-uses for every grid of that length
        if 'frame' not in grids:
            grids['frame'] = pd.DataFrame(mk_prices(D, 'h'))
        g = mk_grid('h') if op == 'frame' else mk_grid('day2')
        return pf.setup_optim_problem(g.prices_to_grid(grids['frame']), g)        # as eao.optimize(portf, timegrid, data) does
    if op == 'same':
        # a second set-up on the very grid object a previous call used (or a new hourly grid if none)
        g = grids.get('h') or mk_grid('h')
        grids['h'] = g
        return pf.setup_optim_problem(mk_prices(D, 'h'), g)
    if op == 'split':
        g = mk_grid('h')
        pr = mk_prices(D, 'h')
        return pf.setup_split_optim_problem(pd.DataFrame(pr), g, interval_size='2h')
    if op == 'wrapped':
        # the very asset objects of the portfolio are wrapped in a structured asset with a narrower window, which is set up once
        eao = lift.import_eao()
        g = mk_grid('h')
        h_ = lambda k: shapes.T0 + dt.timedelta(hours=k)
        names = []
        for a in pf.assets:
            names += [n for n in a.node_names if n not in names]
        w = eao.portfolio.StructuredAsset(name='tmp_wrapper', nodes=[eao.assets.Node(n) for n in names], portfolio=pf, start=h_(1), end=h_(2))     # the very Portfolio object
        return w.setup_optim_problem(mk_prices(D, 'h'), g)
    if op == 'costs':
        g = grids.get('h') or mk_grid('h')
        grids['h'] = g
        # one pre-allocated sample dictionary that the user refills before every call
        smp = grids.setdefault('sample', {})
        smp.update(mk_prices(D, 'h'))
        return pf.create_cost_samples([smp], g)
    raise KeyError(op)


def scenario(D, pfk, history, final, isolate=False):
    """returns (problem after the history on shared objects, problem of a fresh portfolio for the final call alone)"""
    pf = mk_portfolio(D, pfk)
    grids = {}
    for op in history:
        apply_op(pf, op, D, grids)
    # final call: on the grid object an earlier call may have used, with every cache poisoned
    if final in NOGRID_FINALS:
        return scenario_nogrid(D, pfk, pf, grids, final)
    if final in OTHER_FINALS:
        return scenario_other(D, pfk, pf, grids, final)
    fkey = 'day2' if final == 'frame_day2' else final
    g = grids.get(fkey) or mk_grid(fkey)
    if final == 'frame_day2':
        # the DataFrame object an earlier call may have been given, now for another day
        pr_hist = grids.get('frame') if grids.get('frame') is not None else pd.DataFrame(mk_prices(D, 'h'))
        pr_fresh = pd.DataFrame(mk_prices(D, 'h'))
    else:
        pr_hist = pr_fresh = None
    if hasattr(g, 'restricted'):
        g.restricted = Poison()
    if hasattr(g, 'discount_factors'):
        g.discount_factors = Poison()
    if isolate:
        # the fresh objects come from a second instance of the repository's modules: nothing the history left on classes or in module globals
        # can reach them (the calls above ran on the first instance)
        lift.fresh_import()
    fresh = mk_portfolio(D, pfk)
    try:
        gf = mk_grid(fkey)
        op_fresh = fresh.setup_optim_problem(gf.prices_to_grid(pr_fresh) if pr_fresh is not None else mk_prices(D, final), gf)
    except sym.Realisation:
        raise
    except Exception as e:  # noqa: BLE001 - the final call is rejected for a fresh object as well: compare the behaviour
        op_fresh = e
    try:
        op_hist = pf.setup_optim_problem(g.prices_to_grid(pr_hist) if pr_hist is not None else mk_prices(D, final), g)
    except sym.Realisation:
        raise
    except Exception as e:  # noqa: BLE001
        if isinstance(op_fresh, Exception) and type(op_fresh) is type(e) and str(op_fresh)[:60] == str(e)[:60]:
            return None, None          # same rejection with and without history
        raise
    if isinstance(op_fresh, Exception):
        raise AssertionError('fresh object raises %s: %s but the call succeeds after the history' % (type(op_fresh).__name__, op_fresh))
    return op_hist, op_fresh


class Stacked:
    """the stand-alone problems of several assets side by side (block diagonal), as one problem-like object for compare()"""

    def __init__(self, ops):
        self.c = np.concatenate([np.asarray(o.c, dtype=object) for o in ops]) if ops else np.zeros(0, dtype=object)
        self.l = np.concatenate([np.asarray(o.l, dtype=object) for o in ops]) if ops else np.zeros(0, dtype=object)
        self.u = np.concatenate([np.asarray(o.u, dtype=object) for o in ops]) if ops else np.zeros(0, dtype=object)
        n = len(self.c)
        blocks, bs, ct, maps, off = [], [], '', [], 0
        for o in ops:
            k = len(o.c)
            A = to_dense(o.A)
            if A is not None and A.size:
                blk = np.zeros((A.shape[0], n), dtype=object)
                blk[:, off:off + A.shape[1]] = A
                blocks.append(blk)
                bs.append(np.asarray(o.b, dtype=object))
                ct += o.cType
            if o.mapping is not None and len(o.mapping):
                m = o.mapping.copy()
                m.index = [int(i) + off for i in m.index]
                maps.append(m)
            off += k
        self.A = np.vstack(blocks) if blocks else None
        self.b = np.concatenate(bs) if bs else None
        self.cType = ct or None
        self.mapping = pd.concat(maps) if maps else None
        self.map_nodal_restr = None


def scenario_nogrid(D, pfk, pf, grids, final):
    """final call without the time grid argument (the grid was set before): same problem as a fresh object given the grid"""
    g = grids.get('h') or mk_grid('h')
    if hasattr(g, 'restricted'):
        g.restricted = Poison()
    if hasattr(g, 'discount_factors'):
        g.discount_factors = Poison()
    fresh = mk_portfolio(D, pfk)
    gf = mk_grid('h')
    pr = mk_prices(D, 'h')
    if final == 'h_nogrid_assets':
        a_fresh = [a.setup_optim_problem(pr, gf) for a in fresh.assets]
        a_hist = []
        for a in pf.assets:           # the grid is set on ALL assets first (they share the grid object) ...
            a.set_timegrid(g)
        for a in pf.assets:           # ... then every asset is set up on its own without the grid argument
            a_hist.append(a.setup_optim_problem(pr))
        return Stacked(a_hist), Stacked(a_fresh)
    # portfolio, with the first two steps fixed to given values
    n = len(fresh.setup_optim_problem(pr, gf).c)
    fix = dict(I=shapes.T0 + dt.timedelta(hours=1), x=D.arr('fixx', n))
    op_fresh = fresh.setup_optim_problem(pr, mk_grid('h'), fix_time_window=dict(fix))
    pf.set_timegrid(g)
    op_hist = pf.setup_optim_problem(pr, fix_time_window=dict(fix))
    return op_hist, op_fresh


class CostOnly:
    """a cost vector as a problem-like object for compare()"""

    def __init__(self, c):
        self.c = np.asarray(c, dtype=object)
        self.l = np.zeros(len(self.c), dtype=object)
        self.u = np.zeros(len(self.c), dtype=object)
        self.A = self.b = self.cType = self.mapping = self.map_nodal_restr = None


def scenario_other(D, pfk, pf, grids, final):
    g = grids.get('h') or mk_grid('h')
    fresh = mk_portfolio(D, pfk)
    gf = mk_grid('h')
    if final == 'h_split':
        pr = mk_prices(D, 'h')
        a = pf.setup_split_optim_problem(pd.DataFrame(pr), g, interval_size='2h')
        b = fresh.setup_split_optim_problem(pd.DataFrame(pr), gf, interval_size='2h')
        return Stacked(list(a.ops)), Stacked(list(b.ops))
    # cost samples: the sample dictionary object of an earlier call, refilled with other prices
    T = GRIDS['h']['T']
    new_prices = {'p': D.arr('p_resample_', T), 'q': D.arr('q_resample_', T)}
    smp = grids.setdefault('sample', {})
    smp.update(new_prices)
    a = pf.create_cost_samples([smp], g)[0]
    b = fresh.create_cost_samples([dict(new_prices)], gf)[0]
    return CostOnly(a), CostOnly(b)


# ------------------------------------------------------------------------------------------------ run
def compare(rec, name, base, a, b):
    """term-by-term equality of two problems; returns list of (label, goal) not syntactically identical"""
    A, B = lpsem.LP(a), lpsem.LP(b)
    if A.n != B.n or len(A.rows) != len(B.rows) or A.cType != B.cType:
        return [('shape', z3.BoolVal(False))]
    goals = []
    for i in range(A.n):
        for nm, u, v in (('c', A.c[i], B.c[i]), ('l', A.l[i], B.l[i]), ('u', A.u[i], B.u[i])):
            if not z3.simplify(u).eq(z3.simplify(v)):
                goals.append(('%s[%d]' % (nm, i), u == v))
    for r, ((co, ty, rhs), (co2, ty2, rhs2)) in enumerate(zip(A.rows, B.rows)):
        for j in set(co) | set(co2):
            u, v = co.get(j, z3.RealVal(0)), co2.get(j, z3.RealVal(0))
            if not z3.simplify(u).eq(z3.simplify(v)):
                goals.append(('A[%d,%d]' % (r, j), u == v))
        if not z3.simplify(rhs).eq(z3.simplify(rhs2)):
            goals.append(('b[%d]' % r, rhs == rhs2))
    ma = obs.problem_obs(a)['mapping']; mb = obs.problem_obs(b)['mapping']
    if len(ma) != len(mb):
        goals.append(('mapping_len', z3.BoolVal(False)))
    else:
        for k, (ra, rb) in enumerate(zip(ma, mb)):
            for key in ra:
                va, vb = ra.get(key), rb.get(key)
                if isinstance(va, Sym) or isinstance(vb, Sym):
                    if not z3.simplify(zl(va)).eq(z3.simplify(zl(vb))):
                        goals.append(('mapping[%d].%s' % (k, key), zl(va) == zl(vb)))
                elif va != vb and not (va != va and vb != vb):
                    goals.append(('mapping[%d].%s' % (k, key), z3.BoolVal(False)))
    return goals


def run_case(case_id, tier, seed, pf, final, histories, isolate=False):
    rec = lpsem.Rec(PROP, case_id)
    validated = False
    for hi, hist in enumerate(histories):
        H = 'h[%s]' % ','.join(hist)

        def build(D):
            return scenario(D, pf, hist, final, isolate)
        res = lift.explore_build(build, level='A')
        rec.paths += len(res)
        for pi, (path, D) in enumerate(res):
            P = '%s/p%d' % (H, pi)
            if path.exc is not None:
                if common.is_rejection(path.exc):
                    rec.rejected_paths += 1
                    continue
                common.crash_candidate(rec, P + '/crash', path, D, info=dict(kind='crash', history=hist))
                continue
            a, b = path.result
            if a is None:
                rec.rejected_paths += 1
                continue
            base = list(D.pre) + path.pc + sym.atom_constraints()
            if rec.vacuity(P, base) is None:
                continue
            goals = compare(rec, P, base, a, b)
            nm = P + '/equals_fresh'
            if not goals:
                rec.obligations.append(dict(name=nm, verdict='unsat', secs=0, form='Q2'))
                rec.distinct.add(nm)
                if len(rec.samples) < 3:
                    rec.samples.append(dict(case=rec.case_id, obligation=nm, history=hist, final=final, verdict='unsat (term-by-term identical)'))
            else:
                rec.prove_each(nm, base, [(lab, g, dict(kind='equal', history=hist, label=lab)) for lab, g in goals], form='Q2')
            if not validated and not hist:
                env = common.generic_point(base, D.names, seed)
                if env is not None:
                    for n_ in D.names:
                        env.setdefault(n_, 0.0)
                    rec.validations.append(dict(env=env, extra=dict(history=hist), lifted=obs.to_jsonable(dict(hist=obs.problem_obs(a)), env)))
                    validated = True
    rec.twins_ok += 1          # reachability: histories are executed, the comparison is total (no assumptions to be vacuous about)
    return rec.result()


def observe(case, kwargs, env, rq):
    D = lift.Domain(theta=env)
    hist = rq.get('info', {}).get('history', rq.get('extra', {}).get('history', []))
    a, b = scenario(D, kwargs['pf'], hist, kwargs['final'], kwargs.get('isolate', False))
    if a is None:
        return dict(hist='rejected', fresh='rejected')
    o = dict(hist=obs.problem_obs(a))
    if rq.get('kind') == 'replay':
        o['fresh'] = obs.problem_obs(b)
    return o


def judge(case, kwargs, cand, ans):
    info = cand.get('info', {})
    if cand.get('form') == 'crash' or 'crash' in info:
        return (True, 'after history %s the set-up raises: %s' % (info.get('history'), ans['error'][:200])) if 'error' in ans else (False, 'no exception')
    if 'error' in ans:
        return None, ans['error']
    from .. import replay
    o = ans['obs']
    d = replay.diff(o['hist'], o['fresh'])
    if d:
        return True, 'after history %s the final problem differs from a fresh object\'s: %s' % (info.get('history'), d)
    return False, 'problems identical on the unshimmed code'
