"""C04 Value accounting: reported value = sum of per-asset discounted cash flows; each asset's total = -c.x over its own variables.

Q2 identities over symbolic parameters, prices and an arbitrary solution vector x (no feasibility needed):
  sum_a sum_t DCF[a,t] == -c.x          (real io.extract_output / Asset.dcf on symbolic x)
  sum_t DCF[a,t]       == -sum_{i in block(a)} c_i x_i   with block(a) taken from the order and sizes of the assets' own
                                                          set-up calls (recorded), not from the mapping
  summary value        == Results.value
"""
import z3

from .. import scen, common, sym, lpsem
from ..sym import Sym, lift as zl
from .. import lift
from . import c01

PROP = 'C04'
QUICK = [
    ('two_node', dict(T=3, wacc=True), None, 'B'),
    ('contract_storage_win', dict(T=4, win_s=(1, 3), wacc=True), None, 'B'),
    ('multicommodity', dict(T=3, take=(1, 3)), None, 'B'),
    ('plant_fuel', dict(T=3, fuel=True, mr=2), None, 'B'),
    ('coarse_contract', dict(T=4, kind='contract', ec=True), None, 'B'),
    ('coarse_transport', dict(T=4, kind='transport', eff=0.5), None, 'B'),
    ('periodic_contract', dict(T=4, kind='contract', ec=True), None, 'B'),
    ('periodic_transport_dur', dict(T=8, kind='transport', eff=0.5, duration='4h'), None, 'B'),
    ('orderbook_outside', dict(T=3, wacc=True, orders=((-3, -1, 1.0), (0, 2, 2.0), (1, 3, -1.5), (5, 7, 1.0))), None, 'B'),
    ('scaled_storage', dict(T=3, base='storage', win=(0, 2)), None, 'B'),
    ('structured', dict(T=2), None, 'B'),
    ('split_two_node', dict(T=4, freq='12h', unit='h', wacc=True), 'd', 'A'),
    ('split_unaligned', dict(T=5, freq='6h', unit='h'), 'd', 'A'),
    ('split_orderbook_last', dict(T=4, ob_last=True, orders=((0, 1, 2.0), (2, 4, -1.5), (3, 4, 1.0))), '2h', 'A'),
    ('last_asset_outside_horizon', dict(T=3, wins=((0, 3), (1, 3), (6, 8))), None, 'B'),
    ('last_asset_outside_horizon_split', dict(T=4, wins=((0, 4), (1, 3), (6, 8))), '2h', 'A'),
    ('scaled_periodic_base', dict(T=5, base='periodic_contract'), None, 'B'),
    ('multicommodity_three_nodes', dict(T=2, factors=(1.0, 0.5, 2.0), take=(0, 2)), None, 'B'),
    ('structured_two_external_nodes', dict(T=2, two_external=True), None, 'B'),
    ('split_structured', dict(T=4), '2h', 'A'),
    ('split_scaled_storage', dict(T=4, base='storage'), '2h', 'A'),
]
THOROUGH = QUICK + [
    ('two_node_T4_2n', dict(T=4, wacc=True, two_node_storage=True), None, 'B'),
    ('chp', dict(T=3, fuel=True, heat=True, ramp=True), None, 'B'),
    ('coarse_storage', dict(T=4, kind='storage', eff=0.75, ec=True), None, 'B'),
    ('periodic_storage', dict(T=4, kind='storage', eff=0.75, ec=True), None, 'B'),
    ('orderbook_full', dict(T=4, full_exec=True, wacc=True), None, 'B'),
    ('scaled_transport', dict(T=3, base='transport'), None, 'B'),
    ('scaled_take', dict(T=3, base='take'), None, 'B'),
    ('structured_2int', dict(T=2, two_internal=True), None, 'B'),
    ('ext_transport', dict(T=3), None, 'B'),
    ('contract_take', dict(T=4, take=(1, 6)), None, 'B'),
    ('split_orderbook', dict(T=4, orders=((0, 1, 2.0), (2, 4, -1.5), (1, 2, 1.0))), '2h', 'A'),
    ('split_T6_day_unit', dict(T=6, freq='8h', unit='d', wacc=True), 'd', 'A'),
]
SHAPE_OF = dict(c01.SHAPE_OF, scaled_periodic_base='scaled', last_asset_outside_horizon='windows', last_asset_outside_horizon_split='windows', split_orderbook_last='orderbook', contract_storage_win='contract_storage', orderbook_outside='orderbook',
                two_node_T4_2n='two_node', chp='plant', scaled_take='scaled', split_T6_day_unit='two_node',
                periodic_transport_dur='periodic')
GRIDV_QUICK = [('two_node', 'day_d_cet_dst'), ('contract_storage_win', 'month_d'), ('plant_fuel', 'quarter_min'),
               ('orderbook_outside', 'day_h_useast_fall'), ('multicommodity', 'hour_d_utc')]
BOUNDS = dict(quick='shapes %s, T<=8, all numbers symbolic (Level B; split at Level A)' % [c[0] for c in QUICK],
              thorough='shapes %s' % [c[0] for c in THOROUGH])
OUTSIDE = ['SLP problems', 'longer horizons']


def cases(tier, seed):
    lst = THOROUGH if tier == 'thorough' else QUICK
    lst = lst + c01.grid_variants(lst, tier, SHAPE_OF, GRIDV_QUICK)
    out = [(cid, dict(shape=SHAPE_OF.get(cid.split('@')[0], cid.split('@')[0]), kw=dict(kw), split=split, level=level)) for cid, kw, split, level in lst]
    # two-stage stochastic problems (make_slp): the same accounting identities on the extended problem
    out.append(('slp_two_node', dict(shape='two_node', kw=dict(T=3), split='slp', level='A', slp=dict(boundary=1, S=2))))
    # the value a robust optimisation reports is the value of the nominal cost vector (what the cash-flow table adds up to), LP and MIP
    out.append(('returned_value_and_vector_soft_then_hard', dict(shape='-', kw={}, split='c03soft', level='A')))
    out.append(('robust_value_lp', dict(shape='contract_storage', kw=dict(T=2), split='robust', level='A', slp=dict(S=1))))
    out.append(('robust_value_mip', dict(shape='orderbook', kw=dict(T=2, full_exec=True, orders=((0, 2, 2.0), (1, 2, -1.5))), split='robust', level='A', slp=dict(S=1))))
    out.append(('slp_contract_storage', dict(shape='contract_storage', kw=dict(T=3, wacc=True), split='slp', level='A', slp=dict(boundary=2, S=1))))
    # the value of a split problem optimised a second time (same object): concatenation / sum of THAT call's interval answers (C03's recorder)
    out.append(('split_problem_optimised_twice', common.delegated('c03', kind='split', shape='two_node', kw=dict(T=4, freq='12h'), split='d')))
    return out


def slp_scenario(D, shape, kw, boundary, S, env=None):
    """make_slp problem + the real extract_output on a symbolic (or concrete) solution vector, as a scen.Scenario"""
    from . import c17
    eao = lift.import_eao()
    sh, op_base, scen_ops, slp = c17.scenario(D, shape, kw, boundary, S)
    sh3 = c17.scenario.last_shape
    sc = scen.Scenario()
    sc.sh, sc.op, sc.ops = sh3, slp, [slp]
    sc.blocks = []
    n = len(slp.c)
    sc.x = common.sym_x(n) if D.symbolic else common.concrete_x(env, n)
    sc.value = Sym.var('value') if D.symbolic else float((env or {}).get('value', 0.0))
    sc.out = eao.io.extract_output(sh3.portf, slp, eao.optimization.Results(value=sc.value, x=sc.x, duals=None))
    return sc


def run_case(case_id, tier, seed, shape, kw, split, level, slp=None):
    if split == 'c03soft':
        from . import c03
        res = c03.run_case(case_id, tier, seed, **C03SOFT)
        res['prop'] = PROP
        return res
    rec = lpsem.Rec(PROP, case_id)
    if split == 'robust':
        from . import c03
        return c03.run_robust(rec, seed, shape, kw, slp['S'])
    if split == 'slp':
        res = lift.explore_build(lambda D: slp_scenario(D, shape, kw, slp['boundary'], slp['S']), level=level)
    else:
        res = scen.explore(shape, kw, split=split, level=level)
    rec.paths = len(res)
    validated = False
    for pi, (path, D) in enumerate(res):
        if path.exc is not None:
            if common.is_rejection(path.exc):
                rec.rejected_paths += 1
                continue
            common.crash_candidate(rec, 'p%d/crash' % pi, path, D)
            continue
        sc = path.result
        assume = list(D.pre) + path.pc + sym.atom_constraints()
        if rec.vacuity('p%d' % pi, assume) is None:
            continue
        dcf = sc.out['DCF']
        c = [zl(v) for v in sc.op.c]
        x = [zl(v) for v in sc.x]
        n = len(c)
        total_dcf = common.z3sum([v for col in dcf.columns for v in dcf[col].values])
        val = -common.z3sum([c[i] * x[i] for i in range(n)])
        rec.twin('p%d/total' % pi, assume, total_dcf == val + 1)
        rec.prove('p%d/total' % pi, assume, total_dcf == val, form='Q2', info=dict(kind='total'))
        # per asset, blocks from the recorded set-up calls
        if split == 'slp':
            # per asset: variables of the asset by its mapping rows (the SLP appends per-scenario copies; blocks are not contiguous)
            for a in sc.sh.portf.assets:
                mp = sc.op.mapping
                idx = sorted(set(int(i) for i in mp.index[mp['asset'] == a.name]))
                own = -common.z3sum([c[i] * x[i] for i in idx])
                rec.prove('p%d/asset/%s' % (pi, a.name), assume, common.z3sum(list(dcf[a.name].values)) == own, form='Q2',
                          info=dict(kind='asset', asset=a.name, idx=idx))
            if not validated:
                validated = scen.validation_request(rec, sc, D, path, seed, extra_assume=[])
            continue
        if sum(b.n for b in sc.blocks) != n:
            rec.note('block sizes %s do not add up to n=%d' % ([(b.asset, b.n) for b in sc.blocks], n))
            rec.obligations.append(dict(name='p%d/blocks' % pi, verdict='unknown', secs=0, form='Q2'))
            continue
        off = 0
        per_asset = {}
        for b in sc.blocks:
            per_asset.setdefault(b.asset, []).extend(range(off, off + b.n))
            off += b.n
        for a in sc.sh.portf.assets:
            idx = per_asset.get(a.name, [])
            own = -common.z3sum([c[i] * x[i] for i in idx])
            rec.prove('p%d/asset/%s' % (pi, a.name), assume, common.z3sum(list(dcf[a.name].values)) == own, form='Q2',
                      info=dict(kind='asset', asset=a.name, idx=idx))
        sv = sc.out['summary'].loc['value', 'Values']
        rec.prove('p%d/summary' % pi, assume, zl(sv) == zl(sc.value), form='Q2', info=dict(kind='summary'))
        if not validated:
            validated = scen.validation_request(rec, sc, D, path, seed, extra_assume=[])
    return rec.result()


C03SOFT = dict(kind='soft', m=2, n=3, mapping='bool_after_unmapped', ctypes=['UN'])


def observe(case, kwargs, env, rq):
    if kwargs.get('split') == 'c03soft':
        from . import c03
        return c03.observe(case, C03SOFT, env, rq)
    if kwargs.get('split') == 'robust':
        from . import c03
        return c03.observe_robust(case, dict(shape=kwargs['shape'], kw=kwargs['kw'], S=kwargs['slp']['S']), env, rq)
    if kwargs.get('split') == 'slp':
        D = lift.Domain(theta=env)
        sc = slp_scenario(D, kwargs['shape'], kwargs['kw'], kwargs['slp']['boundary'], kwargs['slp']['S'], env=env)
        return scen.observation(sc)
    return scen.observe(case, kwargs, env, rq)


def judge(case, kwargs, cand, ans):
    if kwargs.get('split') == 'c03soft':
        from . import c03
        return c03.judge(case, C03SOFT, cand, ans)
    if kwargs.get('split') == 'robust':
        from . import c03
        return c03.judge_robust(case, dict(kind='robust', shape=kwargs['shape'], kw=kwargs['kw'], S=kwargs['slp']['S']), cand, ans)
    if cand.get('form') == 'crash' or 'crash' in cand.get('info', {}):
        return (True, 'raises on an in-domain input: ' + ans['error'][:200]) if 'error' in ans else (False, 'no exception')
    if 'error' in ans:
        return None, ans['error']
    o = ans['obs']
    probs = o['problems'] if 'problems' in o else [o['problem']]
    c = [v for p in probs for v in p['c']]
    x = [cand['env'].get('x%d' % i, 0.0) for i in range(len(c))]
    dcf = o['output']['DCF']
    info = cand['info']
    scale = max([1.0] + [abs(ci * xi) for ci, xi in zip(c, x)])
    if info.get('kind') == 'total':
        lhs = sum((v or 0.0) for col in dcf.values() for v in col)
        rhs = -sum(ci * xi for ci, xi in zip(c, x))
    elif info.get('kind') == 'asset':
        lhs = sum((v or 0.0) for v in dcf[info['asset']])
        rhs = -sum(c[i] * x[i] for i in info['idx'])
    else:
        lhs = o['output']['summary']['value']; rhs = cand['env'].get('value', 0.0)
    if abs(lhs - rhs) > 1e-6 * scale:
        return True, '%s: DCF side %.6g vs -c.x side %.6g' % (info.get('asset', info.get('kind')), lhs, rhs)
    return False, 'identity holds on the unshimmed code (%.6g)' % lhs
