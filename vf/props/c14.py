"""C14 Split optimisation is consistent with the unsplit problem.

P_split := product of the interval problems the real setup_split_optim_problem builds (lifted), P := the unsplit problem.
 Q2  the split mapping refers to the original grid: every row of the global mapping is the interval problem's own row with its
     index shifted by the number of variables of the preceding intervals and its step replaced by the original step (intervals and
     their steps recomputed by the harness from the grid points); the intervals cover every step of the grid exactly once.
 Q3  uncoupled portfolios: EMB both directions with phi = concatenation (variables matched by asset, name, original step, node):
     same feasible set, same value  => equal optimum and corresponding dispatch.
     storages with start level = end level: EMB(P_split -> P, concatenation, '>=') only  => split optimum <= unsplit optimum, and the
     concatenated split dispatch satisfies all limits and nodal balances of the original problem.
 (value = sum of interval values / concatenation of x is SplitOptimProblem.optimize, decided in C03.)
"""
import numpy as np
import pandas as pd
import z3

from .. import scen, common, sym, lpsem, lift, embed_lp, shapes
from ..sym import Sym, lift as zl

PROP = 'C14'
SHAPE_OF = {}


def _c(cid, shape, kw, split, coupled=False):
    SHAPE_OF[cid] = shape
    return (cid, kw, split, coupled)


QUICK = [
    _c('uncoupled_aligned', 'uncoupled', dict(T=4, freq='12h'), 'd'),
    _c('uncoupled_unaligned_wacc', 'uncoupled', dict(T=5, freq='6h', wacc=True), 'd'),
    _c('uncoupled_day_unit_wacc', 'uncoupled', dict(T=4, freq='12h', unit='d', wacc=True), 'd'),
    _c('uncoupled_one_step_tail', 'uncoupled', dict(T=3, freq='12h'), 'd'),
    _c('uncoupled_week_anchor_q', 'uncoupled', dict(T=4, freq='d', shift_hours=96), 'W'),
    _c('uncoupled_orderbook', 'uncoupled', dict(T=4, orderbook=((0, 2, 2.0), (2, 3, -1.5), (3, 4, 1.0))), '2h'),
    _c('uncoupled_take_in_interval', 'uncoupled', dict(T=4, take=(2, 4)), '2h'),
    # a take period spanning several intervals is prorated per interval: every split-feasible dispatch is feasible for the whole problem
    # capacities as time series (symbolic sign pattern: one- or two-directional per interval / over the whole horizon), extra costs, discounting
    _c('caps_timeseries_discounted', 'caps_ts', dict(T=2, wacc=True), 'h'),
    # periodic asset whose duration blocks coincide with the split intervals (every interval grid starts exactly on a duration border)
    _c('periodic_contract_split_on_duration_borders', 'periodic', dict(T=8, kind='contract', ec=True, duration='4h'), '4h'),
    _c('periodic_transport_split_on_duration_borders', 'periodic', dict(T=8, kind='transport', eff=0.5, duration='4h'), '4h'),
    # an interval in which no asset is active at all (all assets start later / end earlier): the split problem is the unsplit one
    _c('first_interval_without_any_asset', 'windows', dict(T=4, wins=((2, 4), (2, 4), (3, 4))), '2h'),
    _c('middle_interval_without_any_asset', 'windows', dict(T=6, wins=((0, 2), (0, 1), (4, 6), (5, 6))), '2h'),
    _c('scaled_contract_fixed_scale', 'scaled', dict(T=4, base='contract', fixed=True), '2h'),
    _c('scaled_transport_fixed_scale_three_intervals', 'scaled', dict(T=6, base='transport', fixed=True), '2h'),
    _c('take_spans_intervals', 'uncoupled', dict(T=4, take=(1, 4)), '2h', True),
    _c('take_spans_intervals_asset_with_own_dates', 'uncoupled', dict(T=4, take=(0, 4), own_dates=True), '2h', True),
    _c('orderbook_last_trailing', 'orderbook', dict(T=4, storage=False, ob_last=True, orders=((0, 1, 2.0), (2, 4, -1.5), (3, 4, 1.0))), '2h'),
    # calendar-aware interval boundaries: a 23-hour day in a zone-aware grid, a month boundary
    _c('uncoupled_dst_day_split_by_day', 'uncoupled', dict(T=4, freq=('8h', '2021-03-28 00:00', '2021-03-29 09:00', 'CET'), wacc=True), 'd'),
    _c('uncoupled_month_boundary', 'uncoupled', dict(T=4, freq=('d', '2021-01-30', '2021-02-03', None), unit='d', wacc=True), 'MS'),
    _c('storage_start_eq_end', 'contract_storage', dict(T=4, freq='12h', storage_kw=dict(start_eq_end=True)), 'd', True),
    _c('storage_no_simult_window', 'contract_storage', dict(T=4, freq='12h', win_s=(0, 4), win_c=(1, 4), storage_kw=dict(start_eq_end=True, no_simult_in_out=True)), 'd', True),
    _c('two_node_storage_wacc', 'two_node', dict(T=4, freq='12h', wacc=True, storage_kw=dict(start_eq_end=True)), 'd', True),
]
THOROUGH = QUICK + [
    _c('uncoupled_T6_3intervals', 'uncoupled', dict(T=6, freq='8h', wacc=True), 'd'),
    _c('uncoupled_min_unit', 'uncoupled', dict(T=4, freq='30min', unit='min', wacc=True), 'h'),
    _c('uncoupled_unaligned_start', 'uncoupled', dict(T=5, freq='6h', shift_hours=6), 'd'),
    _c('uncoupled_week_anchor', 'uncoupled', dict(T=6, freq='d', shift_hours=96), 'W'),
    _c('storage_start_eq_end_T6', 'contract_storage', dict(T=6, freq='8h', wacc=True, storage_kw=dict(start_eq_end=True)), 'd', True),
    _c('storage_window_partial', 'contract_storage', dict(T=6, freq='8h', win_s=(1, 5), storage_kw=dict(start_eq_end=True)), 'd', True),
    # deeper variants of the quick cases: more intervals, the empty interval at the end, the 25-hour day
    _c('last_interval_without_any_asset', 'windows', dict(T=6, wins=((0, 2), (0, 3), (1, 4), (2, 4))), '2h'),
    _c('scaled_contract_fixed_scale_three_intervals', 'scaled', dict(T=6, base='contract', fixed=True), '2h'),
    _c('periodic_contract_three_duration_blocks', 'periodic', dict(T=12, kind='contract', ec=True, duration='4h'), '4h'),
    _c('uncoupled_dst_autumn_day_split_by_day', 'uncoupled', dict(T=4, freq=('8h', '2021-10-31 00:00', '2021-11-01 07:00', 'CET'), wacc=True), 'd'),
    _c('uncoupled_year_end_split_by_month', 'uncoupled', dict(T=4, freq=('d', '2023-12-30', '2024-01-03', None), unit='d', wacc=True), 'MS'),
]
BOUNDS = dict(quick='%s; 2-3 intervals, T<=6' % [c[0] for c in QUICK], thorough='%s' % [c[0] for c in THOROUGH])
OUTSIDE = ['order books spanning several intervals (they couple the intervals)', 'equality for take periods spanning several intervals (prorated per interval: split <= unsplit only)']
ASSUMPTIONS = ['a storage couples intervals through its level only; with start level = end level every interval is a feasible stand-alone cycle']


def cases(tier, seed):
    lst = THOROUGH if tier == 'thorough' else QUICK
    out = [(cid, dict(shape=SHAPE_OF[cid], kw=dict(kw), split=split, coupled=coupled)) for cid, kw, split, coupled in lst]
    # the same split asked for in other words: interval size spelled differently, prices as a dict of arrays instead of a DataFrame
    # a fixed window given as a date that is a grid point: the split set-up pins the same steps as the unsplit one (C15's machinery)
    # "the value is the sum of the interval optima": what SplitOptimProblem.optimize() returns is the concatenation of the solver's answers for
    # the interval problems, each interval solved on its own rows (C03's recorder machinery; prices symbolic, so intervals with equal costs and
    # bounds but different rows are among the paths)
    out.append(('result_is_concatenation_of_interval_optima_two_node', dict(shape='two_node', kw=dict(T=4, freq='12h'), split='d', coupled=('c03', 'split'))))
    out.append(('result_is_concatenation_of_interval_optima_take_in_one_interval', dict(shape='contract_take', kw=dict(T=4, take=(2, 4)), split='2h', coupled=('c03', 'split'))))
    out.append(('fixed_window_date_on_grid_point', dict(shape='two_node', kw=dict(T=4), split='2h', coupled=('c15', ['date', 2, 0]))))
    out.append(('interval_size_spelled_in_minutes', dict(shape='two_node', kw=dict(T=4), split='2h', coupled=('forms', 'size', '120min'))))
    out.append(('interval_size_day_vs_24h', dict(shape='uncoupled', kw=dict(T=4, freq='12h', wacc=True), split='d', coupled=('forms', 'size', '24h'))))
    out.append(('prices_as_dict_of_arrays', dict(shape='uncoupled', kw=dict(T=4, wacc=True), split='2h', coupled=('forms', 'prices', 'dict'))))
    # sequences of calls on the same objects (decided with C10's history machinery: the final problem equals that of fresh objects)
    # -- interval grids of a split set-up on a grid object that carries the discount factors of an earlier call
    out.append(('history_split_after_an_earlier_setup_on_the_same_grid', common.delegated('c10', pf='dicts', final='h_split', histories=[['same'], ['h', 'same']])))
    return out


def build_forms(D, shape, kw, split, what, alt):
    sh = shapes.build_portfolio(D, shape, **kw)
    a = sh.portf.setup_split_optim_problem(pd.DataFrame(sh.prices), sh.tg, interval_size=split)
    sh2 = shapes.build_portfolio(D, shape, **kw)
    if what == 'size':
        b = sh2.portf.setup_split_optim_problem(pd.DataFrame(sh2.prices), sh2.tg, interval_size=alt)
    else:
        b = sh2.portf.setup_split_optim_problem(dict(sh2.prices), sh2.tg, interval_size=split)
    return a, b


def run_forms(rec, seed, shape, kw, split, what, alt):
    from .c10 import compare
    res = lift.explore_build(lambda D: build_forms(D, shape, kw, split, what, alt), level='A')
    rec.paths = len(res)
    for pi, (path, D) in enumerate(res):
        P = 'p%d' % pi
        if path.exc is not None:
            if common.is_rejection(path.exc):
                rec.rejected_paths += 1
                continue
            common.crash_candidate(rec, P + '/crash', path, D, info=dict(kind='crash'))
            continue
        a, b = path.result
        base = list(D.pre) + path.pc + sym.atom_constraints()
        if rec.vacuity(P, base) is None:
            continue
        rec.twin(P, base, z3.BoolVal(False))
        if len(a.ops) != len(b.ops):
            rec.obligations.append(dict(name=P + '/intervals', verdict='sat', secs=0, form='Q2'))
            rec.candidates.append(dict(name=P + '/intervals', env={}, info=dict(kind='forms', why='%d vs %d interval problems' % (len(a.ops), len(b.ops))), form='struct'))
            continue
        for k_, (x_, y_) in enumerate(zip(a.ops, b.ops)):
            goals = compare(rec, P, base, x_, y_)
            nm = P + '/same_interval_problem/%d' % k_
            if not goals:
                rec.obligations.append(dict(name=nm, verdict='unsat', secs=0, form='Q2'))
                rec.distinct.add(nm)
            else:
                rec.prove_each(nm, base, [(lab, g, dict(kind='forms', label=lab, interval=k_)) for lab, g in goals], form='Q2')
    return rec.result()


def _active(portf, tg, t):
    """is any asset of the portfolio active in grid step t, judged from the windows the user gave (a wrapper without window: always)"""
    tp = tg.timepoints[t]
    for a in portf.assets:
        lo, hi = getattr(a, 'start', None), getattr(a, 'end', None)
        ok = True
        for bound, is_lo in ((lo, True), (hi, False)):
            if bound is None:
                continue
            b_ = pd.Timestamp(bound)
            if b_.tzinfo is None and tg.tz is not None:
                b_ = b_.tz_localize(tg.tz)
            ok = ok and ((tp >= b_) if is_lo else (tp < b_))
        if ok:
            return True
    return False


def interval_steps(tg, split, portf=None):
    """independent recomputation: grid steps of each non-empty interval, in order (portf given: only intervals in which some asset is active --
    an interval without any variable is nothing to optimise and has no interval problem)"""
    start, end = tg.start, tg.end
    pts = list(pd.date_range(start=start, end=end, freq=split, tz=tg.tz))
    if not pts or pts[0] != start:
        pts = [start] + pts
    if pts[-1] != end:
        pts = pts + [end]
    out = []
    for a, b in zip(pts[:-1], pts[1:]):
        st = [t for t in range(tg.T) if a <= tg.timepoints[t] < b]
        if st and (portf is None or any(_active(portf, tg, t) for t in st)):
            out.append(st)
    return out


def product_problem(sc):
    """the split problem as one OptimProblem-like object (block diagonal), for numeric replays"""
    import scipy.sparse as sp
    import types
    ops = sc.ops
    A = sp.block_diag([op.A if op.A is not None else sp.csr_matrix((0, len(op.c))) for op in ops]).tocsr()
    return types.SimpleNamespace(c=np.hstack([np.asarray(op.c, dtype=float) for op in ops]), l=np.hstack([np.asarray(op.l, dtype=float) for op in ops]),
                                 u=np.hstack([np.asarray(op.u, dtype=float) for op in ops]), A=A,
                                 b=np.hstack([np.asarray(op.b, dtype=float) for op in ops]), cType=''.join(op.cType for op in ops),
                                 mapping=sc.op.mapping, map_nodal_restr=None)


class ProductLP:
    """the split problem as one problem: block-diagonal product of the interval problems, keyed by the global (split) mapping"""

    def __init__(self, sc):
        self.parts = [lpsem.LP(op) for op in sc.ops]
        self.n = sum(p.n for p in self.parts)
        self.c, self.l, self.u, self.rows, self.bools = [], [], [], [], set()
        off = 0
        self.offsets = []
        for p in self.parts:
            self.offsets.append(off)
            self.c += p.c; self.l += p.l; self.u += p.u
            for co, ty, rhs in p.rows:
                self.rows.append(({j + off: v for j, v in co.items()}, ty, rhs))
            self.bools |= {i + off for i in p.bools}
            off += p.n
        self.mapping = sc.op.mapping
        self.cType = ''.join(p.cType for p in self.parts)

    var_keys = lpsem.LP.var_keys
    feas = lpsem.LP.feas
    val = lpsem.LP.val
    mk_x = lpsem.LP.mk_x


def split_mapping_check(sc, tg, ivs):
    """structure of the split mapping vs the interval problems' own mappings (see module docstring, Q2)"""
    ok = True
    why = ''
    if any(len(op.c) == 0 for op in sc.ops):
        return False, 'an interval problem has no variable at all (no asset is active in the interval): the solver cannot be called on it'
    if len(sc.ops) != len(ivs):
        ok, why = False, '%d interval problems, %d non-empty intervals expected' % (len(sc.ops), len(ivs))
    else:
        off = 0
        pos = 0
        gm = sc.op.mapping
        for k_, (op, st) in enumerate(zip(sc.ops, ivs)):
            m = op.mapping
            seg = gm.iloc[pos:pos + len(m)]
            if len(seg) != len(m):
                ok, why = False, 'global mapping shorter than the interval mappings'
                break
            if list(seg.index) != [int(i) + off for i in m.index]:
                ok, why = False, 'interval %d: global index is not the interval index shifted by %d' % (k_, off)
                break
            want_steps = [st[int(t)] if 0 <= int(t) < len(st) else None for t in m['time_step']]
            if list(seg['time_step']) != want_steps:
                ok, why = False, 'interval %d: steps of the global mapping are not the original grid steps' % k_
                break
            for col in ('asset', 'var_name', 'type'):
                if [str(v) for v in seg[col]] != [str(v) for v in m[col]]:
                    ok, why = False, 'interval %d: column %s differs' % (k_, col)
            # map_nodal_restr refers to original steps
            mnr = op.map_nodal_restr or []
            if any(t not in st for t, n in mnr):
                ok, why = False, 'interval %d: map_nodal_restr has steps outside the interval: %s' % (k_, [t for t, n in mnr if t not in st][:3])
            off += len(op.c)
            pos += len(m)
        if ok and pos != len(gm):
            ok, why = False, 'global mapping has extra rows'
        if ok and len(sc.op.c) != off:
            ok, why = False, 'cost vector length'
    return ok, why


def run_case(case_id, tier, seed, shape, kw, split, coupled):
    rec = lpsem.Rec(PROP, case_id)
    if isinstance(coupled, (tuple, list)) and coupled[0] == 'c15':
        from . import c15
        res = c15.run_case(case_id, tier, seed, shape, dict(kw), list(coupled[1]), split=split)
        res['prop'] = PROP
        return res
    if isinstance(coupled, (tuple, list)) and coupled[0] == 'forms':
        return run_forms(rec, seed, shape, dict(kw), split, coupled[1], coupled[2])
    if isinstance(coupled, (tuple, list)) and coupled[0] == 'c03':
        from . import c03
        res = c03.run_case(case_id, tier, seed, kind=coupled[1], shape=shape, kw=dict(kw), split=split)
        res['prop'] = PROP
        return res
    eao = lift.import_eao()
    kw = dict(kw)
    shape_b = shape

    def build(D):
        sc = scen.run(D, shape_b, kw, split=split, with_output=False)
        sc2 = scen.run(D, shape_b, kw, split=None, with_output=False)
        return sc, sc2
    res = lift.explore_build(build, level='A')
    rec.paths = len(res)
    validated = False
    for pi, (path, D) in enumerate(res):
        P = 'p%d' % pi
        if path.exc is not None:
            if common.is_rejection(path.exc):
                rec.rejected_paths += 1
                continue
            common.crash_candidate(rec, P + '/crash', path, D, info=dict(kind='crash'))
            continue
        sc, sc2 = path.result
        tg = sc.sh.tg
        base = list(D.pre) + path.pc + sym.atom_constraints()
        ivs = interval_steps(tg, split, sc.sh.portf)
        ok, why = split_mapping_check(sc, tg, ivs)
        nm = P + '/mapping_refers_to_original_grid'
        rec.obligations.append(dict(name=nm, verdict='unsat' if ok else 'sat', secs=0, form='Q2'))
        rec.distinct.add(nm)
        if not ok:
            rec.candidates.append(dict(name=nm, env=common.generic_point(base, D.names, seed) or {}, info=dict(kind='mapping', why=why), form='struct'))
            continue
        # ---- embeddings
        PS = ProductLP(sc)
        PU = lpsem.LP(sc2.op)
        x = PS.mk_x('x')
        terms, missing = embed_lp.phi_contract_forms(PS, x, PU)
        if missing:
            rec.obligations.append(dict(name=P + '/keys', verdict='sat', secs=0, form='struct'))
            rec.candidates.append(dict(name=P + '/keys', env={}, info=dict(kind='keys', missing=missing), form='struct'))
            continue
        embed_lp.embed(rec, P + '/split2unsplit', base, PS, x, PU, terms, rel='>=' if coupled else '==',
                       info=dict(kind='emb', dir='split2unsplit', coupled=coupled))
        if not coupled:
            y = PU.mk_x('y')
            terms2, missing2 = embed_lp.phi_contract_forms(PU, y, PS)
            terms2 = [z3.RealVal(0) if t_ is None else t_ for t_ in terms2]
            embed_lp.embed(rec, P + '/unsplit2split', base, PU, y, PS, terms2, rel='==', info=dict(kind='emb', dir='unsplit2split', coupled=coupled))
        if not validated:
            validated = scen.validation_request(rec, sc, D, path, seed)
    return rec.result()


def observe(case, kwargs, env, rq):
    from .. import obs
    if isinstance(kwargs.get('coupled'), (tuple, list)) and kwargs['coupled'][0] == 'c03':
        from . import c03
        return c03.observe(case, dict(kind=kwargs['coupled'][1], shape=kwargs['shape'], kw=kwargs['kw'], split=kwargs['split']), env, rq)
    if isinstance(kwargs.get('coupled'), (tuple, list)) and kwargs['coupled'][0] == 'c15':
        from . import c15
        return c15.observe(case, dict(shape=kwargs['shape'], kw=kwargs['kw'], win=list(kwargs['coupled'][1]), split=kwargs['split']), env, rq)
    if isinstance(kwargs.get('coupled'), (tuple, list)) and kwargs['coupled'][0] == 'forms':
        D = lift.Domain(theta=env)
        a, b = build_forms(D, kwargs['shape'], dict(kwargs['kw']), kwargs['split'], kwargs['coupled'][1], kwargs['coupled'][2])
        return dict(first=[obs.problem_obs(o_) for o_ in a.ops], second=[obs.problem_obs(o_) for o_ in b.ops])
    D = lift.Domain(theta=env)
    sc = scen.run(D, kwargs['shape'], kwargs['kw'], split=kwargs['split'], with_output=False, env=env)
    o = scen.observation(sc)
    if rq.get('kind') == 'replay':
        sc2 = scen.run(D, kwargs['shape'], kwargs['kw'], split=None, with_output=False, env=env)
        try:
            res_s = sc.op.optimize()
        except Exception as e:  # noqa: BLE001 - the split optimisation itself raises: reported as such (the unsplit optimum below decides whether it should)
            res_s = 'raised'
            o['split_error'] = '%s: %s' % (type(e).__name__, str(e)[:160])
        o['v_split'] = None if isinstance(res_s, str) else float(res_s.value)
        o['s_split'] = res_s if isinstance(res_s, str) else 'optimal'
        o['v_unsplit'], o['s_unsplit'] = embed_lp.optimum(sc2.op)
        o['ivs'] = interval_steps(sc.sh.tg, kwargs['split'], sc.sh.portf)
        info = rq.get('info', {})
        if info.get('kind') == 'emb':
            try:
                pp = product_problem(sc)
                if info.get('dir') == 'split2unsplit':
                    o['nums'] = embed_lp.replay_forms(pp, sc2.op, env, 'x')
                else:
                    o['nums'] = embed_lp.replay_forms(sc2.op, pp, env, 'y')
            except Exception as e:  # noqa: BLE001 - numbers are optional extra evidence
                o['nums_error'] = str(e)
        o['T'] = sc.sh.tg.T
        o['n_c'] = len(sc.op.c)
        # is the concatenated split solution feasible for the unsplit problem? (limits and nodal balance on the original grid)
        if not isinstance(res_s, str):
            PS, PU = ProductLP(sc), lpsem.LP(sc2.op)
            ks, ku = embed_lp.keymap(PS), PU.var_keys()
            xs = np.asarray(res_s.x, dtype=float)
            xu = [float(xs[ks[ku[i]]]) if i in ku and ku[i] in ks else 0.0 for i in range(PU.n)]
            o['concat_residual'] = scen.feasibility_residual(obs.to_jsonable(obs.problem_obs(sc2.op)), xu)
            o['unmatched'] = [i for i in range(PU.n) if not (i in ku and ku[i] in ks)]
    return o


def judge(case, kwargs, cand, ans):
    info = cand.get('info', {})
    if isinstance(kwargs.get('coupled'), (tuple, list)) and kwargs['coupled'][0] == 'c03':
        from . import c03
        return c03.judge(case, dict(kind=kwargs['coupled'][1], shape=kwargs['shape'], kw=kwargs['kw'], split=kwargs['split']), cand, ans)
    if cand.get('form') == 'crash' or 'crash' in info:
        return (True, 'raises on an in-domain input: ' + ans['error'][:200]) if 'error' in ans else (False, 'no exception')
    if 'error' in ans:
        return None, ans['error']
    if isinstance(kwargs.get('coupled'), (tuple, list)) and kwargs['coupled'][0] == 'c15':
        from . import c15
        return c15.judge(case, dict(shape=kwargs['shape'], kw=kwargs['kw'], win=list(kwargs['coupled'][1]), split=kwargs['split']), cand, ans)
    o = ans['obs']
    if info.get('kind') == 'forms':
        from .. import replay
        d = replay.diff(o['first'], o['second'])
        return (True, 'the two ways of asking for the same split give different interval problems: %s' % d) if d else (False, 'identical on the unshimmed code')
    if o.get('split_error') and o.get('s_unsplit') == 'optimal':
        return True, 'the split optimisation raises (%s) while the unsplit problem is solved (value %.6g)' % (o['split_error'], o['v_unsplit'])
    if info.get('kind') == 'mapping':
        # re-evaluate the structural statement on the unshimmed split problem
        probs, gm, ivs = o['problems'], o['split_mapping'], o['ivs']
        if any(len(p['c']) == 0 for p in probs):
            return True, 'an interval problem without any variable is handed to the solver'
        if len(probs) != len(ivs):
            return True, '%d interval problems for %d non-empty intervals' % (len(probs), len(ivs))
        off = pos = 0
        for k_, (p, st) in enumerate(zip(probs, ivs)):
            m = p['mapping']
            seg = gm[pos:pos + len(m)]
            if [r['index'] for r in seg] != [r['index'] + off for r in m]:
                return True, 'interval %d: split mapping index is not the interval index shifted by the %d preceding variables' % (k_, off)
            if [r['time_step'] for r in seg] != [st[r['time_step']] if 0 <= r['time_step'] < len(st) else None for r in m]:
                return True, 'interval %d: split mapping steps are not the original grid steps' % k_
            if any(t not in st for t, n in p['map_nodal_restr']):
                return True, 'interval %d: nodal-restriction map has steps outside the interval' % k_
            off += len(p['c']); pos += len(m)
        if pos != len(gm) or off != o['n_c']:
            return True, 'split mapping / cost vector length inconsistent'
        return False, 'split mapping consistent on the unshimmed code'
    if info.get('kind') == 'keys':
        return True, 'variables of the unsplit problem have no counterpart in the split problem: %s' % info['missing']
    rel = '>=' if info.get('coupled') else '=='
    bad, text = embed_lp.judge_values(o.get('v_split'), o.get('s_split'), o.get('v_unsplit'), o.get('s_unsplit'), rel, what=('split', 'unsplit'))
    if bad:
        return True, text
    if 'nums' in o and 'label' in info:
        what = ('split', 'unsplit') if info.get('dir') == 'split2unsplit' else ('unsplit', 'split')
        b2, t2 = embed_lp.judge_numbers(o['nums'], info.get('label'), rel, what=what)
        if b2:
            return True, t2
    if o.get('unmatched'):
        return True, 'unsplit variables %s are not covered by any interval' % o['unmatched'][:5]
    if o.get('concat_residual', 0) > 1e-6:
        return True, 'the concatenated split solution violates limits/balances of the original problem (residual %.6g)' % o['concat_residual']
    return False, text
