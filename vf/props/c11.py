"""C11 JSON round trip preserves every asset and portfolio.

The real json_serialize_objects / json_deserialize_objects / to_json / load_from_json run with symbolic numeric leaves through a
tree-walking stand-in for the C json module (vf/jsonstub.py).  For every asset class (incl. scaled, structured, CHP, min-load CHP,
Plant, order book, extended transport, multi-commodity) x parameter forms (scalars, interval dictionaries with date lists /
DatetimeIndex / numpy date arrays, numpy value arrays, price-column strings) x {fresh, after a set-up call} x grid {naive, CET}:
  Q2  the loaded object's lifted problem equals the original's term by term (for all numeric contents, symbolic prices, two grids)
  Q2  to_json(load(to_json(o))) equals to_json(o) as trees
  portfolios carrying a grid: same time points and same time zone after loading; what could be set up before can be set up after.
Dates, classes and forms are enumerated (structure); the solver's share is "for all numeric contents".
"""
import datetime as dt

import numpy as np
import pandas as pd
import z3

from .. import scen, common, sym, lpsem, lift, shapes, obs, known
from ..sym import Sym, lift as zl
from .c10 import compare

PROP = 'C11'
CLASSES = ['simple_contract', 'contract_dicts', 'contract_dtindex', 'contract_nparrays', 'contract_aware_object_arrays', 'contract_aware_lists', 'contract_aware_dtindex_days_over_dst', 'contract_aware_dtindex_months', 'storage', 'transport', 'ext_transport', 'multicommodity',
           'chp', 'chp_minload', 'chp_no_heat', 'plant', 'orderbook', 'scaled', 'structured', 'linked']
GRIDS = ['naive', 'cet']
EXTRA_SHIMS = ['serialization.json = vf.jsonstub (tree walker; validated against the real json module on concrete objects every run)']
BOUNDS = dict(quick='classes %s x {fresh, after set-up} x grids %s; portfolio with its own grid (naive, CET, CET starting in the repeated DST hour)' % (CLASSES, GRIDS),
              thorough='same plus US/Eastern grids and both grids for every class')
OUTSIDE = ['the C json encoder/decoder and file I/O (stubbed / not exercised)', 'date string formatting below one second']


def cases(tier, seed):
    out = []
    for cl in CLASSES:
        for after in (False, True):
            for g in (['naive'] if cl == 'orderbook' else (['cet'] if cl.startswith('contract_aware') else (GRIDS if tier == 'thorough' or cl in ('contract_dicts',) else ['naive']))):      # (zone-aware dates need a zone-aware grid)
                out.append(('%s_%s_%s' % (cl, 'after_setup' if after else 'fresh', g), dict(kind='asset', cls=cl, after=after, grid=g)))
    for g in ('naive', 'cet', 'cet_dst_repeated_hour', 'us_eastern', 'day_unit', 'quarter_hours_minute_unit_cet', 'seconds_cet', 'days_spelled_d', 'days_spelled_1d_cet'):
        if tier != 'thorough' and g == 'us_eastern':
            continue
        out.append(('portfolio_with_grid_%s' % g, dict(kind='portfolio', grid=g)))
    # the run_from_json entry point with a grid other than the one saved with the portfolio
    out.append(('run_from_json_other_grid_cet', dict(kind='runjson', grid='naive', grid_run='cet')))
    out.append(('run_from_json_other_grid_day_unit', dict(kind='runjson', grid='cet', grid_run='day_unit')))
    # saving to / loading from FILES: after any sequence of saves and loads (same file addressed by different spellings of its path) a load
    # returns what was saved last -- bounded histories, decided on the real file system in the pristine interpreter
    out.append(('file_histories', dict(kind='files', length=5 if tier == 'thorough' else 4)))
    out.append(('stub_validation', dict(kind='stubcheck')))
    return out


T = 4


def mk_grid(g):
    eao = lift.import_eao()
    if g == 'naive':
        return eao.assets.Timegrid(shapes.T0, shapes.T0 + dt.timedelta(hours=T), freq='h')
    if g == 'cet':
        return eao.assets.Timegrid(shapes.T0, shapes.T0 + dt.timedelta(hours=T), freq='h', timezone='CET')
    if g == 'us_eastern':
        return eao.assets.Timegrid(shapes.T0, shapes.T0 + dt.timedelta(hours=T), freq='h', timezone='US/Eastern')
    if g == 'day_unit':        # main time unit 'd': rates per day -- the loaded grid must keep the unit
        return eao.assets.Timegrid(shapes.T0, shapes.T0 + dt.timedelta(hours=T), freq='h', main_time_unit='d')
    if g == 'quarter_hours_minute_unit_cet':
        return eao.assets.Timegrid(shapes.T0, shapes.T0 + dt.timedelta(minutes=15 * T), freq='15min', main_time_unit='min', timezone='CET')
    if g == 'seconds_cet':       # dates with seconds: 20-second steps starting at 00:00:20
        s0 = pd.Timestamp(shapes.T0) + pd.Timedelta(seconds=20)
        return eao.assets.Timegrid(s0.to_pydatetime(), (s0 + pd.Timedelta(seconds=20 * T)).to_pydatetime(), freq='20s', main_time_unit='min', timezone='CET')
    if g in ('days_spelled_d', 'days_spelled_1d_cet'):      # frequency strings in spellings other than pandas' canonical one
        return eao.assets.Timegrid(shapes.T0, shapes.T0 + dt.timedelta(days=T), freq='d' if g == 'days_spelled_d' else '1d',
                                   timezone=None if g == 'days_spelled_d' else 'CET')
    if g == 'cet_dst_repeated_hour':
        s = pd.Timestamp('2021-10-31 01:00', tz='UTC')         # = 02:00+01:00, the second 02:00 of that night
        return eao.assets.Timegrid(s.tz_convert('CET'), (s + pd.Timedelta(hours=T)).tz_convert('CET'), freq='h', timezone='CET')
    raise KeyError(g)


def h(k):
    return shapes.T0 + dt.timedelta(hours=k)


def mk_object(D, cls):
    eao = lift.import_eao()
    nA, nB, nG = shapes.nodes('A', 'B', 'G')
    tg = mk_grid('naive')
    if cls == 'simple_contract':
        return shapes.mk_market(D, 'a', nA, T, 'p', ec=True, wacc=D('wacc', lo=0))
    if cls == 'contract_dicts':
        return eao.assets.Contract(name='a', nodes=nA, price='p', min_cap=D('min', hi=0),
                                   max_cap={'start': [h(0), h(2)], 'values': [D('max0', lo=0), D('max1', lo=0)]},
                                   extra_costs={'start': [h(0)], 'end': [h(9)], 'values': [D('ec', lo=0)]},
                                   min_take={'start': [h(0)], 'end': [h(3)], 'values': [D('mintake', hi=0)]},
                                   max_take={'start': [h(1)], 'end': [h(6)], 'values': [D('maxtake', lo=0)]}, start=h(0), end=h(4))
    if cls == 'contract_dtindex':
        return eao.assets.Contract(name='a', nodes=nA, price='p', min_cap=D('min', hi=0),
                                   max_cap={'start': pd.date_range(h(0), periods=2, freq='2h'), 'end': pd.date_range(h(2), periods=2, freq='2h'),
                                            'values': [D('max0', lo=0), D('max1', lo=0)]},
                                   max_take={'start': [pd.Timestamp(h(1))], 'end': [pd.Timestamp(h(6))], 'values': [D('maxtake', lo=0)]})
    if cls == 'contract_nparrays':
        vals = np.empty(2, dtype=object); vals[0] = D('max0', lo=0); vals[1] = D('max1', lo=0)
        return eao.assets.Contract(name='a', nodes=nA, price='p', min_cap='capmin',
                                   max_cap={'start': np.array([np.datetime64(h(0)), np.datetime64(h(2))]), 'end': np.array([np.datetime64(h(2)), np.datetime64(h(9))]),
                                            'values': vals})
    if cls in ('contract_aware_object_arrays', 'contract_aware_lists'):
        # zone-aware dates (CET wall clock of the test grids), as numpy OBJECT arrays (date_range(...).to_numpy()) / as lists of Timestamps
        aw = lambda k: pd.Timestamp(h(k)).tz_localize('CET')
        arr = (lambda lst: np.array(lst, dtype=object)) if cls == 'contract_aware_object_arrays' else (lambda lst: list(lst))
        vals = np.empty(2, dtype=object); vals[0] = D('max0', lo=0); vals[1] = D('max1', lo=0)
        return eao.assets.Contract(name='a', nodes=nA, price='p', min_cap=D('min', hi=0),
                                   max_cap={'start': arr([aw(0), aw(2)]), 'end': arr([aw(2), aw(9)]), 'values': vals},
                                   max_take={'start': arr([aw(1)]), 'end': arr([aw(3)]), 'values': [D('maxtake', lo=0)]})
    if cls in ('contract_aware_dtindex_days_over_dst', 'contract_aware_dtindex_months'):
        # zone-aware DatetimeIndex with a CALENDAR frequency: local midnights over the spring-forward day / month starts are not equidistant in UTC
        if cls.endswith('dst'):
            days = pd.date_range(pd.Timestamp(shapes.T0) - pd.Timedelta(days=1), periods=4, freq='D', tz='CET')
            far = pd.date_range('2021-03-27', periods=4, freq='D', tz='CET')
        else:
            days = pd.date_range(pd.Timestamp(shapes.T0).replace(day=1), periods=4, freq='MS', tz='CET')
            far = pd.date_range('2021-03-01', periods=4, freq='MS', tz='CET')
        return eao.assets.Contract(name='a', nodes=nA, price='p', min_cap=D('min', hi=0), max_cap=D('max', lo=0),
                                   max_take={'start': days[:-1], 'end': days[1:], 'values': [D('maxtake0', lo=0), D('maxtake1', lo=0), D('maxtake2', lo=0)]},
                                   min_take={'start': far[:-1], 'end': far[1:], 'values': [D('mintake0', hi=0), D('mintake1', hi=0), D('mintake2', hi=0)]})
    if cls == 'storage':
        return shapes.mk_storage(D, 'a', [nA, nB], eff=0.75, wacc=D('wacc', lo=0), block_size='2h')
    if cls == 'transport':
        return shapes.mk_transport(D, 'a', nA, nB, eff=0.5, cost_ts='p')
    if cls == 'ext_transport':
        return shapes.mk_transport(D, 'a', nA, nB, eff=0.5, cls=eao.assets.ExtendedTransport, max_take=shapes.mk_take(tg, 0, 2, D('maxtake', lo=0)))
    if cls == 'multicommodity':
        return eao.assets.MultiCommodityContract(name='a', nodes=[nA, nB], price='p', min_cap=D('min', hi=0), max_cap=D('max', lo=0),
                                                 extra_costs=D('ec', lo=0), factors_commodities=[1.0, 0.5],
                                                 max_take=shapes.mk_take(tg, 0, 3, D('maxtake', lo=0)))
    if cls == 'chp':
        return shapes.mk_plant(D, 'a', [nA, nB, nG], T, fuel=True, heat=True, mr=2, ramp=True, start_ramp=([1, 2], [1.5, 2.5]), tg=tg)
    if cls == 'chp_minload':
        mn = D('a_min', lo_strict=0); mx = D('a_max', lo=0)
        D.assume(mn <= mx)
        return eao.assets.CHPAsset_with_min_load_costs(name='a', nodes=[nA, nB], price='p', min_cap=mn, max_cap=mx, min_runtime=2,
                                                       min_load_threshhold=D('thr', lo=0), min_load_costs=D('mlc', lo=0))
    if cls == 'chp_no_heat':
        mn = D('a_min', lo_strict=0); mx = D('a_max', lo=0)
        D.assume(mn <= mx)
        return eao.assets.CHPAsset(name='a', nodes=[nA, nG], price='p', min_cap=mn, max_cap=mx, start_costs=D('sc', lo=0), _no_heat=True,
                                   start_fuel=D('sf', lo=0), fuel_efficiency=0.5, consumption_if_on=D('cio', lo=0))
    if cls == 'plant':
        return shapes.mk_plant(D, 'a', [nA, nG], T, fuel=True, heat=False, mr=2, md=2, tao=1, ramp=True, tg=tg)
    if cls == 'orderbook':
        return shapes.mk_orderbook(D, 'a', nA, tg, ((0, 2, 2.0), (1, 4, -1.5), (5, 7, 1.0)), full_exec=True, wacc=D('wacc', lo=0))
    if cls == 'scaled':
        b = shapes.mk_storage(D, 'base', nA, eff=0.75)
        return eao.assets.ScaledAsset(name='a', base_asset=b, min_scale=0., max_scale=D('smax', lo=0), norm_scale=2.0, fix_costs=D('fixc', lo=0), start=h(0), end=h(3))
    if cls == 'structured':
        ist = shapes.mk_storage(D, 'ist', nB, eff=None, costs=False)
        itr = shapes.mk_transport(D, 'itr', nB, nA, eff=0.5)
        return eao.portfolio.StructuredAsset(name='a', nodes=nA, portfolio=eao.portfolio.Portfolio([ist, itr]), start=h(0), end=h(4))
    if cls == 'linked':
        a1 = shapes.mk_plant(D, 'ga', [nA], T, price='p', fuel=False)
        a2 = shapes.mk_plant(D, 'gb', [nA], T, price='p', fuel=False, mr=2)
        return eao.portfolio.LinkedAsset(eao.portfolio.Portfolio([a1, a2]), asset1_variable=('ga', 'disp', 'A'), asset2_variable=('gb', 'bool_on', None),
                                         name='a', nodes=nA, time_back=1)
    raise KeyError(cls)


def mk_prices(D, tag):
    pr = {'p': D.arr('p_%s_' % tag, T), 'q': D.arr('q_%s_' % tag, T)}
    pr['capmin'] = D.arr('capmin_%s_' % tag, T, hi=0)
    return pr


def trees_equal(a, b, path=''):
    """structural equality of two JSON trees; Sym leaves by term identity. Returns list of z3 goals / False entries"""
    if isinstance(a, dict) and isinstance(b, dict):
        if set(a) != set(b):
            return [('%s: keys %s vs %s' % (path, sorted(set(a) - set(b)), sorted(set(b) - set(a))), z3.BoolVal(False))]
        out = []
        for k in a:
            out += trees_equal(a[k], b[k], path + '/' + k)
        return out
    if isinstance(a, list) and isinstance(b, list):
        if len(a) != len(b):
            return [('%s: length' % path, z3.BoolVal(False))]
        out = []
        for i, (x, y) in enumerate(zip(a, b)):
            out += trees_equal(x, y, '%s[%d]' % (path, i))
        return out
    if isinstance(a, Sym) or isinstance(b, Sym):
        if z3.simplify(zl(a)).eq(z3.simplify(zl(b))):
            return []
        return [(path, zl(a) == zl(b))]
    if a == b or (isinstance(a, float) and isinstance(b, float) and abs(a - b) <= 1e-12 * max(1, abs(a))):
        return []
    return [('%s: %r vs %r' % (path, a, b), z3.BoolVal(False))]


def install_stub():
    from .. import jsonstub
    eao = lift.import_eao()
    eao.serialization.json = jsonstub
    return jsonstub


def asset_scenario(D, cls, after, grid):
    eao = lift.import_eao()
    ser = eao.serialization
    o = mk_object(D, cls)
    g1 = mk_grid(grid)
    if after:
        o.setup_optim_problem(mk_prices(D, 'h'), g1)
    doc = ser.to_json(o)
    o2 = ser.load_from_json(doc)
    doc2 = ser.to_json(o2)
    out = []
    for gk, tag in ((grid, 'a'), ('cet' if grid == 'naive' else 'naive', 'b')):
        try:
            p1 = o.setup_optim_problem(mk_prices(D, tag), mk_grid(gk))
        except sym.Realisation:
            raise
        except Exception as e:  # noqa: BLE001 - the original rejects this grid: the loaded object must behave the same
            p1 = e
        try:
            p2 = o2.setup_optim_problem(mk_prices(D, tag), mk_grid(gk))
        except sym.Realisation:
            raise
        except Exception as e:  # noqa: BLE001
            p2 = e
        out.append((gk, p1, p2))
    return doc, doc2, out


def portfolio_scenario(D, grid):
    eao = lift.import_eao()
    ser = eao.serialization
    nA, nB = shapes.nodes('A', 'B')
    ct = eao.assets.Contract(name='ct', nodes=nA, price='p', min_cap=D('min', hi=0), max_cap=D('max', lo=0),
                             min_take={'start': [h(0)], 'end': [h(3)], 'values': [D('mintake', hi=0)]})
    if grid in ('cet_dst_repeated_hour', 'quarter_hours_minute_unit_cet', 'seconds_cet'):
        ct.min_take = None
    if grid == 'seconds_cet':
        # an asset window with seconds as well
        ct.start = (pd.Timestamp(shapes.T0) + pd.Timedelta(seconds=40)).to_pydatetime()
        ct.end = (pd.Timestamp(shapes.T0) + pd.Timedelta(seconds=80)).to_pydatetime()
    st = shapes.mk_storage(D, 'sto', nA, eff=0.75)
    assets = [ct, st]
    if grid.startswith('days_spelled'):
        # a plant with its own frequency, spelled like the grid's (CHPAsset compares the two strings)
        ct.min_take = None
        assets.append(shapes.mk_plant(D, 'pl', [nA], T, price='p', fuel=False, mr=0, freq='d' if grid == 'days_spelled_d' else '1d'))
    pf = eao.portfolio.Portfolio(assets)
    g = mk_grid(grid)
    pf.set_timegrid(g)
    pr = mk_prices(D, 'a')
    p1 = pf.setup_optim_problem(pr)
    doc = ser.to_json(pf)
    pf2 = ser.load_from_json(doc)
    doc2 = ser.to_json(pf2)
    same_points = (len(pf2.timegrid.timepoints) == len(g.timepoints)) and bool(np.all(pf2.timegrid.timepoints == g.timepoints))
    same_tz = str(pf2.timegrid.tz) == str(g.tz)
    try:
        p2 = pf2.setup_optim_problem(pr)
    except sym.Realisation:
        raise
    except Exception as e:  # noqa: BLE001 - what could be set up before must be set up after loading
        p2 = e
    return doc, doc2, p1, p2, same_points, same_tz, [str(t) for t in g.timepoints], [str(t) for t in pf2.timegrid.timepoints]


def runjson_scenario(D, grid_saved, grid_run):
    """serialization.run_from_json(json, prices, timegrid): the problem it optimises is the problem of the original portfolio on the PASSED
    grid (the portfolio was saved with another grid of its own).  The problem is captured from the real call (wrapper around
    Portfolio.setup_optim_problem in the checker process); the solver is the recorder stand-in (lifted) / the real one (replay)."""
    eao = lift.import_eao()
    ser = eao.serialization
    nA, nB = shapes.nodes('A', 'B')

    def mk():
        ct = eao.assets.Contract(name='ct', nodes=nA, price='p', min_cap=D('min', hi=0), max_cap=D('max', lo=0), extra_costs=D('ec', lo=0))
        st = shapes.mk_storage(D, 'sto', nA, eff=0.75)
        return eao.portfolio.Portfolio([ct, st])
    pf = mk()
    pf.set_timegrid(mk_grid(grid_saved))
    doc = ser.to_json(pf)
    pr = mk_prices(D, 'b')
    captured = []
    orig = eao.portfolio.Portfolio.setup_optim_problem

    def wrap(self, *a, **k):
        r = orig(self, *a, **k)
        captured.append(r)
        return r
    eao.portfolio.Portfolio.setup_optim_problem = wrap
    try:
        if D.symbolic:
            from . import c03
            c03.with_stub('optimal')
        ser.run_from_json(json_str=doc, prices=pr, timegrid=mk_grid(grid_run))
    finally:
        eao.portfolio.Portfolio.setup_optim_problem = orig
    p_via = captured[-1]
    p_direct = mk().setup_optim_problem(pr, mk_grid(grid_run))
    return doc, doc, [(grid_run, p_direct, p_via)]


def run_case(case_id, tier, seed, kind, **kw):
    rec = lpsem.Rec(PROP, case_id)
    install_stub()
    if kind == 'stubcheck':
        return run_stubcheck(rec, seed)
    if kind == 'files':
        rec.pchecks.append(dict(extra=dict(seed=seed, length=kw['length'])))
        rec.twins_ok += 1
        rec.vacuity_ok += 1
        return rec.result()

    def build(D):
        if kind == 'asset':
            return asset_scenario(D, kw['cls'], kw['after'], kw['grid'])
        if kind == 'runjson':
            return runjson_scenario(D, kw['grid'], kw['grid_run'])
        return portfolio_scenario(D, kw['grid'])
    kf = 'KF-C11-linked' if kw.get('cls') == 'linked' and known.is_open('KF-C11-linked') else None
    res = lift.explore_build(build, level='A')
    rec.paths = len(res)
    validated = False
    for pi, (path, D) in enumerate(res):
        P = 'p%d' % pi
        if path.exc is not None:
            if common.is_rejection(path.exc) and not isinstance(path.exc, TypeError):
                rec.rejected_paths += 1
                continue
            if kf:
                rec.known_hits.append((kf, P + '/crash', '%s: %s' % (type(path.exc).__name__, str(path.exc)[:80])))
                rec.obligations.append(dict(name=P + '/crash', verdict='sat', secs=0, form='crash'))
                continue
            common.crash_candidate(rec, P + '/crash', path, D, info=dict(kind='crash'))
            continue
        base = list(D.pre) + path.pc + sym.atom_constraints()
        if rec.vacuity(P, base) is None:
            continue
        rec.twin(P, base, z3.BoolVal(False))
        if kind in ('asset', 'runjson'):
            doc, doc2, out = path.result
            pairs = [(gk, p1, p2) for gk, p1, p2 in out]
        else:
            doc, doc2, p1, p2, same_points, same_tz, tp1, tp2 = path.result
            pairs = [(kw['grid'], p1, p2)]
            for nm, ok, inf in (('same_time_points', same_points, dict(kind='grid', before=tp1[:3], after=tp2[:3], n=[len(tp1), len(tp2)])), ('same_time_zone', same_tz, dict(kind='tz'))):
                rec.obligations.append(dict(name=P + '/' + nm, verdict='unsat' if ok else 'sat', secs=0, form='Q2'))
                rec.distinct.add(P + '/' + nm)
                if not ok:
                    rec.candidates.append(dict(name=P + '/' + nm, env=common.generic_point(base, D.names, seed) or {}, info=inf, form='struct'))
        goals = trees_equal(doc.tree, doc2.tree)
        nm = P + '/json_reproduced'
        if not goals:
            rec.obligations.append(dict(name=nm, verdict='unsat', secs=0, form='Q2'))
            rec.distinct.add(nm)
        else:
            rec.prove_each(nm, base, [(lab[:60], g, dict(kind='json', label=lab[:200])) for lab, g in goals], form='Q2')
        for gk, p1, p2 in pairs:
            nm = P + '/same_problem/' + gk
            if isinstance(p1, Exception) or isinstance(p2, Exception):
                ok = isinstance(p1, Exception) and isinstance(p2, Exception) and type(p1) is type(p2)
                rec.obligations.append(dict(name=nm, verdict='unsat' if ok else 'sat', secs=0, form='Q2'))
                rec.distinct.add(nm)
                if not ok:
                    rec.candidates.append(dict(name=nm, env=common.generic_point(base, D.names, seed) or {},
                                               info=dict(kind='setup_differs', grid=gk, before=str(p1)[:80] if isinstance(p1, Exception) else 'ok',
                                                         after=str(p2)[:80] if isinstance(p2, Exception) else 'ok'), form='struct'))
                continue
            gl = compare(rec, P, base, p1, p2)
            if not gl:
                rec.obligations.append(dict(name=nm, verdict='unsat', secs=0, form='Q2'))
                rec.distinct.add(nm)
                if len(rec.samples) < 3:
                    rec.samples.append(dict(case=rec.case_id, obligation=nm, verdict='unsat (loaded object yields the identical problem, term by term)'))
            else:
                rec.prove_each(nm, base, [(lab, g, dict(kind='problem', grid=gk, label=lab)) for lab, g in gl], form='Q2')
        if not validated:
            env = common.generic_point(base, D.names, seed)
            if env is not None:
                for n_ in D.names:
                    env.setdefault(n_, 0.0)
                first = pairs[0][1]
                if not isinstance(first, Exception):
                    rec.validations.append(dict(env=env, lifted=obs.to_jsonable(dict(problem=obs.problem_obs(first)), env)))
                    validated = True
    return rec.result()


def run_stubcheck(rec, seed):
    """the tree walker agrees with the real json module on concrete objects (every class, fresh)"""
    rec.pchecks.append(dict(extra=dict(seed=seed)))
    rec.twins_ok += 1
    rec.vacuity_ok += 1
    return rec.result()


def file_histories(length):
    """all sequences over {save A / save B / load} x {relative, ./relative, absolute path} up to `length`, each ending in a load"""
    import itertools, os, tempfile, shutil, json as real_json
    eao = lift.import_eao()
    ser = eao.serialization
    ser.json = real_json
    D = lift.Domain(theta={})

    def portfolio(size):
        nA = eao.assets.Node('A')
        return eao.portfolio.Portfolio([eao.assets.Storage('sto', nodes=nA, size=size, cap_in=1., cap_out=1.),
                                        eao.assets.SimpleContract(name='mk', nodes=nA, price='p', min_cap=-1., max_cap=1.)])
    objs = {'A': portfolio(10.), 'B': portfolio(40.)}
    texts = {k: ser.to_json(v) for k, v in objs.items()}
    ops = [('save', o, sp) for o in 'AB' for sp in range(3)] + [('load', None, sp) for sp in range(3)]
    obligations, violations = [], []
    work = tempfile.mkdtemp(prefix='c11_files_')
    cwd = os.getcwd()
    n = 0
    try:
        os.chdir(work)
        spell = lambda sp, k: ['pf%d.json' % k, './pf%d.json' % k, os.path.join(work, 'pf%d.json' % k)][sp]
        for L in range(2, length + 1):
            for hist in itertools.product(ops, repeat=L):
                if hist[-1][0] != 'load' or hist[0][0] != 'save':
                    continue
                n += 1
                fn = 'pf%d.json' % n
                last = None
                bad = None
                for step, (op, o, sp) in enumerate(hist):
                    path = spell(sp, n)
                    if op == 'save':
                        ser.to_json(objs[o], path)
                        last = o
                    else:
                        got = ser.to_json(ser.load_from_json(file_name=path))
                        if got != texts[last]:
                            bad = 'step %d: load via %r returns another object than the one saved last (%s)' % (step, ['relative', './relative', 'absolute'][sp], last)
                            break
                os.remove(fn)
                if bad and len(violations) < 3:
                    nm = 'files/' + '-'.join('%s%s%d' % (op[0], o or '', sp) for op, o, sp in hist)
                    obligations.append(dict(name=nm, verdict='sat', secs=0, form='L0'))
                    violations.append(dict(name=nm, text='history %s: %s' % ([(op, o, ['rel', './rel', 'abs'][sp]) for op, o, sp in hist], bad), env={}, info=dict(kind='files')))
    finally:
        os.chdir(cwd)
        shutil.rmtree(work, ignore_errors=True)
    obligations.append(dict(name='files/histories_%d' % n, verdict='unsat' if not violations else 'sat', secs=0, form='L0'))
    return dict(obligations=obligations, violations=violations, solver_s=0.0, samples=[dict(case='file_histories', histories=n, max_length=length)])


def observe(case, kwargs, env, rq):
    kw = dict(kwargs)
    kind = kw.pop('kind')
    if kind == 'files':
        return file_histories(rq.get('extra', {}).get('length', kw.get('length', 3)))
    eao = lift.import_eao()
    import json as real_json
    if kind == 'stubcheck':
        from .. import jsonstub
        obligations, violations = [], []
        src = {}
        D = lift.Domain(theta=src)
        for cl in CLASSES:
            if cl == 'linked':
                continue
            o = mk_object(D, cl)
            eao.serialization.json = real_json
            s_real = eao.serialization.to_json(o)
            tree_real = real_json.loads(s_real)
            eao.serialization.json = jsonstub
            tree_stub = eao.serialization.to_json(o).tree
            eao.serialization.json = real_json
            from .. import replay
            d = replay.diff(tree_real, tree_stub)
            nm = 'stub_vs_real_json/' + cl
            obligations.append(dict(name=nm, verdict='unsat' if not d else 'unknown', secs=0, form='L0', note=d or ''))
        return dict(obligations=obligations, violations=violations, solver_s=0.0, samples=[dict(case='stub_validation', classes=len(CLASSES) - 1)])
    # replays / validation: the REAL json module, floats
    eao.serialization.json = real_json
    D = lift.Domain(theta=env)
    if kind in ('asset', 'runjson'):
        doc, doc2, out = asset_scenario(D, kw['cls'], kw['after'], kw['grid']) if kind == 'asset' else runjson_scenario(D, kw['grid'], kw['grid_run'])
        o = dict(problem=obs.problem_obs(out[0][1]) if not isinstance(out[0][1], Exception) else str(out[0][1]))
        if rq.get('kind') == 'replay':
            o['json_equal'] = (doc == doc2)
            o['pairs'] = []
            from .. import replay
            for gk, p1, p2 in out:
                if isinstance(p1, Exception) or isinstance(p2, Exception):
                    o['pairs'].append(dict(grid=gk, before=str(p1)[:100] if isinstance(p1, Exception) else 'ok', after=str(p2)[:100] if isinstance(p2, Exception) else 'ok'))
                else:
                    o['pairs'].append(dict(grid=gk, diff=replay.diff(obs.to_jsonable(obs.problem_obs(p1)), obs.to_jsonable(obs.problem_obs(p2)))))
        return o
    doc, doc2, p1, p2, same_points, same_tz, tp1, tp2 = portfolio_scenario(D, kw['grid'])
    o = dict(problem=obs.problem_obs(p1))
    if rq.get('kind') == 'replay':
        from .. import replay
        if isinstance(p2, Exception):
            pairs = [dict(grid=kw['grid'], before='ok', after=str(p2)[:100])]
        else:
            pairs = [dict(grid=kw['grid'], diff=replay.diff(obs.to_jsonable(obs.problem_obs(p1)), obs.to_jsonable(obs.problem_obs(p2))))]
        o.update(json_equal=(doc == doc2), same_points=same_points, same_tz=same_tz, tp1=tp1, tp2=tp2, pairs=pairs)
    return o


def judge(case, kwargs, cand, ans):
    info = cand.get('info', {})
    if cand.get('form') == 'crash' or 'crash' in info:
        return (True, 'save/load/set-up raises: ' + ans['error'][:200]) if 'error' in ans else (False, 'no exception with the real json module')
    if 'error' in ans:
        return None, ans['error']
    o = ans['obs']
    k = info.get('kind')
    if k == 'json':
        return (o.get('json_equal') is False), 'saving the loaded object does not reproduce the JSON (%s)' % info.get('label', '')[:120]
    if k in ('problem', 'setup_differs'):
        for p in o.get('pairs', []):
            if p.get('grid') == info.get('grid'):
                if 'diff' in p:
                    return bool(p['diff']), 'the loaded object yields a different problem on the %s grid: %s' % (p['grid'], p['diff'])
                return p['before'] != p['after'], 'set-up before saving: %s; after loading: %s' % (p['before'], p['after'])
    if k == 'grid':
        return (o.get('same_points') is False), 'time points before %s ... (%d), after loading %s ... (%d)' % (o.get('tp1', [])[:2], len(o.get('tp1', [])), o.get('tp2', [])[:2], len(o.get('tp2', [])))
    if k == 'tz':
        return (o.get('same_tz') is False), 'time zone of the portfolio grid changed by save/load'
    return None, 'unknown obligation'
