"""C03 The optimiser returns a feasible, optimal point of the assembled problem.

The native solvers cannot be executed symbolically; EAO's own part (optimization.py: problem hand-over and result assembly) can.
 Stub level (symbolic, real OptimProblem.optimize / SplitOptimProblem.optimize with sys.modules['cvxpy'] = vf.cvxstub):
   inputs: c,l,u,A,b fully symbolic (m x n), cType over ALL strings in {U,L,S,N}^m, mappings with duplicated index rows, unmapped
   variables and boolean flags (bounds of booleans arbitrary), plus assembled catalogue problems (LP and MIP)
   (i)   the recorded constraint system is equivalent to F(x) of vf.lpsem (both implications, row by row); the recorded boolean
         index set is the set of flagged variables -- also on a second optimize() after optimize(make_soft_problem=True)
   (ii)  the recorded objective is -c.x
   (iii) under the solver contract [status optimal => x.value satisfies the recorded problem, prob.value = objective(x.value),
         x.value maximises it] the real result assembly gives Results.x in F, Results.value = -c.Results.x, duals filed under the
         row class whose rows they belong to; a status string is returned exactly when the stub did not say optimal
         ('optimal_inaccurate' -> 'inaccurate')
   (iv)  SplitOptimProblem.optimize: value = sum, x = concatenation in interval order, nodal duals concatenated in the order of
         map_nodal_restr
 Contract validation (Level 0, concrete, instance testing -- not the deciding step): seeded small LP/MIPs with all four row
   classes solved by the REAL cvxpy with every installed solver that accepts the class; z3 Optimize on the exact rational problem
   is the oracle (feasible within tolerance, value within tolerance, failure status => infeasible).
"""
import itertools
import random
import sys
from fractions import Fraction

import numpy as np
import pandas as pd
import z3

from .. import scen, common, sym, lpsem, lift, shapes, obs, embed_lp
from ..sym import Sym, lift as zl
from ..shims import M

PROP = 'C03'
EXTRA_SHIMS = ['sys.modules["cvxpy"] = vf.cvxstub: recorder; solve() returns a nondeterministic outcome constrained only by the stated solver contract']
ASSUMPTIONS = ['solver contract: status "optimal" => x.value is a maximiser of the recorded problem, prob.value its objective value, '
               'dual_value of a constraint its multipliers; other statuses carry no information (validated on instances against the real cvxpy)',
               'finite bounds (every assembled EAO problem has them)']
OUTSIDE = ['the native solvers themselves', 'rows without any non-zero coefficient (cvxpy+SCIP accepts an infeasible all-zero row in a MIP: observed, outside the contract)', 'the ortools interface (not installed)', 'unbounded hand-made problems']
STATUSES = ['optimal', 'optimal_inaccurate', 'infeasible', 'unbounded', 'infeasible_inaccurate']

MAPPINGS = {
    # name: (index rows, flagged rows) for n = 3: variable 1 is unmapped, variable 0 has two rows
    'plain': ([0, 1, 2], []),
    'dup_unmapped': ([0, 0, 2], []),
    'bool_after_unmapped': ([0, 0, 2], [2]),
    'bool_first_dup': ([0, 0, 2], [0, 1]),
    'all_bool': ([0, 1, 2], [0, 1, 2]),
}


def cases(tier, seed):
    out = []
    ms = (1, 2, 3) if tier == 'thorough' else (1, 2)
    for m in ms:
        strings = [''.join(s) for s in itertools.product('ULSN', repeat=m)]
        for mp in MAPPINGS:
            if tier != 'thorough' and mp in ('bool_first_dup',) and m > 1:
                continue
            # group the cType strings of one (m, mapping) into one case
            out.append(('stub_m%d_%s' % (m, mp), dict(kind='stub', m=m, n=3, mapping=mp, ctypes=strings)))
    out.append(('stub_no_rows', dict(kind='stub', m=0, n=3, mapping='bool_after_unmapped', ctypes=[''])))
    out.append(('soft_then_hard', dict(kind='soft', m=2, n=3, mapping='bool_after_unmapped', ctypes=['UN'])))
    for cid, shape, kw in (('assembled_two_node', 'two_node', dict(T=2)), ('assembled_plant_mip', 'plant', dict(T=2, fuel=True, mr=2)),
                           ('assembled_orderbook_full_outside', 'orderbook', dict(T=3, full_exec=True, orders=((-2, -1, 1.0), (0, 2, 2.0), (1, 3, -1.5))))):
        out.append((cid, dict(kind='assembled', shape=shape, kw=kw)))
    out.append(('split_two_node', dict(kind='split', shape='two_node', kw=dict(T=4, freq='12h'), split='d')))
    out.append(('split_storage_partial_window', dict(kind='split', shape='contract_storage', kw=dict(T=4, freq='12h', win_s=(0, 2)), split='d')))
    out.append(('split_storage_late_window', dict(kind='split', shape='contract_storage', kw=dict(T=4, freq='12h', win_s=(2, 4)), split='d')))
    # an interval that is a MIP (full-execution order inside the second interval only) between / after intervals that are LPs
    out.append(('split_one_interval_is_a_mip', dict(kind='split', shape='orderbook', kw=dict(T=4, full_exec=True, storage=False, orders=((2, 4, 2.0),)), split='2h')))
    n_inst = 60 if tier == 'thorough' else 16
    for k in range(4):
        out.append(('contract_validation_%d' % k, dict(kind='validate', n_inst=n_inst // 4, offset=k * 1000)))
    return out


BOUNDS = dict(quick='symbolic problems m<=2 rows x 3 variables, all 4^m row-type strings x 5 mappings; 3 assembled catalogue problems (LP, MIP, full-exec order book with an unmapped variable); 2 split problems; 16 validation instances x installed solvers',
              thorough='m<=3 (64 strings); 60 validation instances')


# ------------------------------------------------------------------------------------------------ stub plumbing
def with_stub(status='optimal'):
    from .. import cvxstub
    sys.modules['cvxpy'] = cvxstub
    cvxstub.reset(status)
    return cvxstub


def recorded_to_z3(prob, xname='x'):
    """recorded cvxpy problem -> (z3 vars per stub variable, list of (constraint index, row index, z3 Bool), objective term, bool idx)"""
    from .. import cvxstub
    zv = {}

    def var(key):
        vid, i = key
        if key not in zv:
            zv[key] = z3.Real('%s_%d_%d' % (xname, vid, i))
        return zv[key]
    cons = []
    for k, c in enumerate(prob.constraints):
        for r, (co, op, rhs) in enumerate(c.rows()):
            lhs = z3.Sum([zl(v) * var(key) for key, v in co.items()]) if co else z3.RealVal(0)
            if isinstance(rhs, float) and rhs in (float('inf'), float('-inf')):
                # an infinite right-hand side handed to the solver: no limit on the one side, unsatisfiable on the other
                g = z3.BoolVal((op == '<=' and rhs > 0) or (op == '>=' and rhs < 0))
                cons.append((k, r, g))
                continue
            rt = zl(rhs)
            cons.append((k, r, lhs <= rt if op == '<=' else (lhs >= rt if op == '>=' else lhs == rt)))
    oe = prob.objective.expr
    assert len(oe.rows) == 1
    co, c0 = oe.rows[0]
    obj = (z3.Sum([zl(v) * var(key) for key, v in co.items()]) if co else z3.RealVal(0)) + zl(c0)
    if prob.objective.sense == 'min':
        obj = -obj
    return zv, cons, obj


def check_recorded(rec, P, base, op_lp, prob, xvar, c_terms=None, robust_samples=None, info=None):
    """(i) recorded constraints <=> F, booleans; (ii) objective"""
    info = dict(info or {})
    zv, cons, obj = recorded_to_z3(prob)
    n = op_lp.n
    x = [zv.get((xvar.id, i), z3.Real('x_%d_%d' % (xvar.id, i))) for i in range(n)]
    F = op_lp.feas(x, integrality=False)
    rec_bools = sorted(xvar.boolean_idx)
    ok = rec_bools == sorted(op_lp.bools)
    nm = P + '/booleans'
    rec.obligations.append(dict(name=nm, verdict='unsat' if ok else 'sat', secs=0, form='Q2'))
    rec.distinct.add(nm)
    if not ok:
        rec.candidates.append(dict(name=nm, env={}, info=dict(info, ob='booleans', recorded=rec_bools, flagged=sorted(op_lp.bools)), form='struct'))
    x_only = [(k, r, g) for k, r, g in cons if not _mentions_other(g, x)]
    extra = [(k, r, g) for k, r, g in cons if _mentions_other(g, x)]
    Rec = [g for k, r, g in x_only]
    if rec.vacuity(P + '/F', base + F) is None:
        return x, obj, extra
    rec.twin(P + '/F=>recorded', base + F, z3.BoolVal(False))
    rec.prove_each(P + '/F=>recorded', base + F, [('c%d_r%d' % (k, r), g, dict(info, ob='F=>rec')) for k, r, g in x_only], form='Q2', margin=False)
    rec.prove_each(P + '/recorded=>F', base + Rec, [('F%d' % i, g, dict(info, ob='rec=>F')) for i, g in enumerate(F)], form='Q2', margin=False)
    return x, obj, extra


def _mentions_other(g, xs):
    names = {str(v) for v in xs}
    stack = [g]
    while stack:
        t = stack.pop()
        if z3.is_const(t) and t.decl().kind() == z3.Z3_OP_UNINTERPRETED and str(t) not in names and not str(t).startswith('x_'):
            pass
        if z3.is_const(t) and t.decl().kind() == z3.Z3_OP_UNINTERPRETED and str(t).startswith('x_') and str(t) not in names:
            return True
        stack.extend(t.children())
    return False


# ------------------------------------------------------------------------------------------------ cases
def run_case(case_id, tier, seed, kind, **kw):
    rec = lpsem.Rec(PROP, case_id)
    if kind in ('stub', 'soft'):
        return run_stub(rec, seed, soft=(kind == 'soft'), **kw)
    if kind == 'assembled':
        return run_assembled(rec, seed, **kw)
    if kind == 'split':
        return run_split(rec, seed, **kw)
    if kind == 'validate':
        return run_validate(rec, seed, **kw)
    raise KeyError(kind)


def synthetic(D, m, n, mapping, ctype):
    eao = lift.import_eao()
    c = D.arr('c', n); l = D.arr('l', n); u = D.arr('u', n)
    for i in range(n):
        D.assume(l[i] <= u[i])
    A = np.empty((m, n), dtype=object)
    for r in range(m):
        for j in range(n):
            A[r, j] = D('a%d_%d' % (r, j))
    b = D.arr('b', m)
    idx, flagged = MAPPINGS[mapping]
    mp = pd.DataFrame({'asset': ['a'] * len(idx), 'node': ['n'] * len(idx), 'type': ['d'] * len(idx), 'var_name': ['v'] * len(idx),
                       'time_step': list(range(len(idx)))}, index=idx)
    if flagged:
        mp['bool'] = [k in flagged for k in range(len(idx))]
    return eao.optimization.OptimProblem(c=c, l=l, u=u, A=(M(A) if m else None), b=(b if m else None), cType=(ctype if m else None), mapping=mp)


def run_stub(rec, seed, m, n, mapping, ctypes, soft=False):
    eao = lift.import_eao()
    for ct in ctypes:
        for status in (STATUSES if not soft else ['optimal']):
            def build(D):
                stub = with_stub(status)
                op = synthetic(D, m, n, mapping, ct)
                snapshot = lpsem.LP(op)
                soft_part = None
                if soft:
                    res_soft = op.optimize(make_soft_problem=True)
                    soft_part = (res_soft, stub.STATE.problems[-1], stub.STATE.variables[0], [zl(v) for v in stub.STATE.variables[0].solver_value])
                    stub.reset(status)
                res = op.optimize()
                return op, snapshot, res, stub.STATE.problems[-1], stub.STATE.variables[0], soft_part
            paths = lift.explore_build(build, level='B')
            rec.paths += len(paths)
            for pi, (path, D) in enumerate(paths):
                P = '%s/%s/p%d' % (ct or '-', status, pi)
                if path.exc is not None:
                    common.crash_candidate(rec, P + '/crash', path, D, info=dict(ob='crash', ctype=ct, status=status))
                    continue
                op, L, res, prob, xvar, soft_part = path.result
                base = list(D.pre) + path.pc
                info = dict(ctype=ct, status=status, mapping=mapping, soft=soft)
                if soft_part is not None:
                    # the result of the RELAXED call itself: the solver's vector unchanged (flagged variables may be fractional), value = -c.x
                    res_s, prob_s, xvar_s, xs_before = soft_part
                    ok_s = isinstance(res_s, eao.optimization.Results) and len(res_s.x) == len(xs_before)
                    nm_s = P + '/soft/returns_results'
                    rec.obligations.append(dict(name=nm_s, verdict='unsat' if ok_s else 'sat', secs=0, form='Q2'))
                    rec.distinct.add(nm_s)
                    if ok_s:
                        for i in range(len(xs_before)):
                            rec.prove(P + '/soft/result_x[%d]' % i, base, zl(res_s.x[i]) == xs_before[i], form='Q2', info=dict(info, ob='soft_result_x', i=i))
                        rec.prove(P + '/soft/result_value', base + [zl(prob_s.value) == -z3.Sum([L.c[i] * xs_before[i] for i in range(L.n)])],
                                  zl(res_s.value) == -z3.Sum([L.c[i] * zl(res_s.x[i]) for i in range(L.n)]), form='Q2', info=dict(info, ob='soft_result_value'))
                    else:
                        rec.candidates.append(dict(name=nm_s, env={}, info=dict(info, ob='soft_returns'), form='struct'))
                if status == 'optimal':
                    x, obj, extra = check_recorded(rec, P, base, L, prob, xvar, info=info)
                    rec.prove(P + '/objective', base, obj == L.val(x), form='Q2', info=dict(info, ob='objective'))
                    assembled(rec, P, base, L, prob, xvar, res, x, obj, info)
                else:
                    want = 'inaccurate' if status == 'optimal_inaccurate' else 'not successful'
                    ok = isinstance(res, str) and res == want
                    nm = P + '/status_string'
                    rec.obligations.append(dict(name=nm, verdict='unsat' if ok else 'sat', secs=0, form='Q2'))
                    rec.distinct.add(nm)
                    if not ok:
                        rec.candidates.append(dict(name=nm, env={}, info=dict(info, ob='status', got=str(res)[:40]), form='struct'))
    return rec.result()


def assembled(rec, P, base, L, prob, xvar, res, x, obj, info, c_nominal=None):
    """(iii) result assembly under the solver contract"""
    eao = lift.import_eao()
    ok = isinstance(res, eao.optimization.Results) and res.x is xvar.value and all(a_ is b_ for a_, b_ in zip(res.x, getattr(xvar, 'solver_value', res.x)))
    nm = P + '/returns_solver_x'
    rec.obligations.append(dict(name=nm, verdict='unsat' if ok else 'sat', secs=0, form='Q2'))
    rec.distinct.add(nm)
    if not ok:
        rec.candidates.append(dict(name=nm, env={}, info=dict(info, ob='returns_x'), form='struct'))
        return
    xs = [zl(v) for v in xvar.value]
    zv, cons, obj2 = recorded_to_z3(prob, 'x')
    sub = [(z3.Real('x_%d_%d' % (xvar.id, i)), xs[i]) for i in range(len(xs))]
    other = [v for v in __import__('vf.cvxstub', fromlist=['x']).STATE.variables if v is not xvar]
    for v in other:
        sub += [(z3.Real('x_%d_%d' % (v.id, i)), zl(v.value[i])) for i in range(v.n)]
    contract = [z3.substitute(g, *sub) for k, r, g in cons] + [z3.Or(xs[i] == 0, xs[i] == 1) for i in xvar.boolean_idx]
    contract.append(zl(prob.value) == z3.substitute(obj2, *sub))
    assume = base + contract
    if rec.vacuity(P + '/contract', assume) is None:
        return
    cvec = c_nominal if c_nominal is not None else L.c
    rec.prove(P + '/result_feasible', assume, z3.And(*L.feas(xs)), form='Q1', info=dict(info, ob='result_feasible'), margin=False)
    rec.prove(P + '/result_value', assume, zl(res.value) == -z3.Sum([cvec[i] * xs[i] for i in range(L.n)]), form='Q2', info=dict(info, ob='result_value'))
    # duals: filed under the class of the rows they belong to
    if not L.bools:
        want = {'bound_u': 0, 'bound_l': 1}
        k = 1
        for cls in 'ULSN':
            if cls in L.cType:
                k += 1
                want[cls] = k
        okd = isinstance(res.duals, dict) and set(res.duals) == set(want) and all(res.duals[t] is prob.constraints[want[t]].dual_value for t in want)
        # and constraint want[cls] really consists of the rows of class cls, in order
        if okd:
            for cls in 'ULSN':
                if cls in want:
                    rows = [r for r, ty in enumerate(L.cType) if ty == cls]
                    crow = prob.constraints[want[cls]].rows()
                    if len(crow) != len(rows):
                        okd = False
                        break
                    for (co, op_, rhs), r in zip(crow, rows):
                        coefs = L.rows[r][0]
                        got = {key[1]: z3.simplify(zl(v)) for key, v in co.items()}
                        if set(got) != set(coefs) or any(not got[j].eq(z3.simplify(coefs[j])) for j in coefs) or \
                                op_ != {'U': '<=', 'L': '>=', 'S': '==', 'N': '=='}[cls]:
                            okd = False
        nm = P + '/duals_filed'
        rec.obligations.append(dict(name=nm, verdict='unsat' if okd else 'sat', secs=0, form='Q2'))
        rec.distinct.add(nm)
        if not okd:
            rec.candidates.append(dict(name=nm, env={}, info=dict(info, ob='duals'), form='struct'))
    else:
        okd = res.duals is None
        nm = P + '/no_duals_for_mip'
        rec.obligations.append(dict(name=nm, verdict='unsat' if okd else 'sat', secs=0, form='Q2'))
        rec.distinct.add(nm)


def run_assembled(rec, seed, shape, kw):
    def build(D):
        stub = with_stub('optimal')
        sc = scen.run(D, shape, kw, None, with_output=False)
        L = lpsem.LP(sc.op)
        res = sc.op.optimize()
        return sc, L, res, stub.STATE.problems[-1], stub.STATE.variables[0]
    paths = lift.explore_build(build, level='A')
    rec.paths = len(paths)
    for pi, (path, D) in enumerate(paths):
        P = 'p%d' % pi
        if path.exc is not None:
            if common.is_rejection(path.exc):
                rec.rejected_paths += 1
                continue
            common.crash_candidate(rec, P + '/crash', path, D, info=dict(ob='crash'))
            continue
        sc, L, res, prob, xvar = path.result
        base = list(D.pre) + path.pc + sym.atom_constraints()
        info = dict(shape=shape)
        x, obj, extra = check_recorded(rec, P, base, L, prob, xvar, info=info)
        rec.prove(P + '/objective', base, obj == L.val(x), form='Q2', info=dict(info, ob='objective'))
        assembled(rec, P, base, L, prob, xvar, res, x, obj, info)
    return rec.result()


def run_split(rec, seed, shape, kw, split):
    eao = lift.import_eao()
    # an interval the solver does not solve: the split problem must report the failure (not crash, not return a result)
    for status in ('infeasible', 'optimal_inaccurate'):
        def build_f(D, status=status):
            with_stub(status)
            sc = scen.run(D, shape, kw, split, with_output=False)
            return sc.op.optimize()
        for pi, (path, D) in enumerate(lift.explore_build(build_f, level='A')[:2]):
            nm = 'failure_%s/p%d' % (status, pi)
            if path.exc is not None:
                if common.is_rejection(path.exc):
                    continue
                common.crash_candidate(rec, nm + '/crash', path, D, info=dict(ob='crash', kind='split', status=status))
                continue
            ok = isinstance(path.result, str)
            rec.obligations.append(dict(name=nm + '/status_string', verdict='unsat' if ok else 'sat', secs=0, form='Q2'))
            rec.distinct.add(nm)
            if not ok:
                rec.candidates.append(dict(name=nm + '/status_string', env={}, info=dict(ob='split_status', status=status), form='struct'))

    def build(D):
        stub = with_stub('optimal')
        sc = scen.run(D, shape, kw, split, with_output=False)
        res = sc.op.optimize()
        probs, vars_ = list(stub.STATE.problems), list(stub.STATE.variables)
        # a second optimisation of the very same split problem object (e.g. first relaxed for a bound, then exactly; or with another solver)
        res2 = sc.op.optimize()
        sc.second = (res2, list(stub.STATE.problems)[len(probs):], list(stub.STATE.variables)[len(vars_):])
        return sc, res, probs, vars_
    paths = lift.explore_build(build, level='A')
    rec.paths = len(paths)
    for pi, (path, D) in enumerate(paths):
        P = 'p%d' % pi
        if path.exc is not None:
            if common.is_rejection(path.exc):
                rec.rejected_paths += 1
                continue
            common.crash_candidate(rec, P + '/crash', path, D, info=dict(ob='crash', kind='split'))
            continue
        sc, res, probs, vars_ = path.result
        base = list(D.pre) + path.pc + sym.atom_constraints()
        ok = len(probs) == len(sc.ops) == len(vars_)
        if ok:
            xcat = [v for var in vars_ for v in var.value]
            ok = len(res.x) == len(xcat) and all(a is b for a, b in zip(res.x, xcat))
        nm = P + '/x_is_concatenation'
        rec.obligations.append(dict(name=nm, verdict='unsat' if ok else 'sat', secs=0, form='Q2'))
        rec.distinct.add(nm)
        if not ok:
            # a point of this path (e.g. intervals with equal costs and bounds) for the numeric replay with the real solver
            env_pt = common.generic_point(base, D.names, seed) or {}
            rec.candidates.append(dict(name=nm, env=env_pt, info=dict(ob='split_x'), form='struct'))
            continue
        rec.twin(P + '/value', base, z3.BoolVal(False))
        rec.prove(P + '/value_is_sum', base, zl(res.value) == z3.Sum([zl(p.value) for p in probs]), form='Q2', info=dict(ob='split_value'))
        # the second call on the same object returns the answers of ITS solves, nothing of the first call
        res2, probs2, vars2 = sc.second
        ok2 = (not isinstance(res2, str)) and len(probs2) == len(sc.ops) == len(vars2)
        if ok2:
            xcat2 = [v for var in vars2 for v in var.value]
            ok2 = len(res2.x) == len(xcat2) and all(a is b for a, b in zip(res2.x, xcat2))
        nm2 = P + '/second_call_x_is_concatenation'
        rec.obligations.append(dict(name=nm2, verdict='unsat' if ok2 else 'sat', secs=0, form='Q2'))
        rec.distinct.add(nm2)
        if not ok2:
            rec.candidates.append(dict(name=nm2, env=common.generic_point(base, D.names, seed) or {}, info=dict(ob='split_x2'), form='struct'))
        else:
            rec.prove(P + '/second_call_value_is_sum', base, zl(res2.value) == z3.Sum([zl(p.value) for p in probs2]), form='Q2', info=dict(ob='split_x2'))
        # nodal duals in the order of map_nodal_restr
        dn = res.duals.get('N') if isinstance(res.duals, dict) else None
        want = []
        for p, o in zip(probs, sc.ops):
            L = lpsem.LP(o)
            k = 1 + sum(1 for cls in 'ULSN' if cls in L.cType and 'ULSN'.index(cls) <= 3 and cls in L.cType[:]) if False else None
            idx = 1
            for cls in 'ULSN':
                if cls in L.cType:
                    idx += 1
                    if cls == 'N':
                        want += list(p.constraints[idx].dual_value)
        if any(lpsem.LP(o).bools for o in sc.ops):
            # an interval that is a MIP has no duals: then the split result carries none at all (a partial list could not be aligned with the
            # recorded nodal rows of all intervals)
            okd = dn is None
        else:
            okd = dn is not None and len(dn) == len(want) == len(sc.op.map_nodal_restr) and all(a is b for a, b in zip(dn, want))
        nm = P + '/nodal_duals_concatenated'
        rec.obligations.append(dict(name=nm, verdict='unsat' if okd else 'sat', secs=0, form='Q2'))
        rec.distinct.add(nm)
        if not okd:
            rec.candidates.append(dict(name=nm, env={}, info=dict(ob='split_duals'), form='struct'))
    return rec.result()


# ------------------------------------------------------------------------------------------------ robust (used by C17)
def run_robust(rec, seed, shape, kw, S):
    from . import c17

    def build(D):
        stub = with_stub('optimal')
        sh = shapes.build_portfolio(D, shape, **kw)
        op = sh.portf.setup_optim_problem(sh.prices, sh.tg)
        L = lpsem.LP(op)
        samples = c17.scenario_prices(D, sh.prices, sh.tg.T, 0, S)
        cs = sh.portf.create_cost_samples(samples, sh.tg)
        csl = [[zl(v) for v in c_] for c_ in cs]
        res = op.optimize(target='robust', samples=cs)
        return L, csl, res, stub.STATE.problems[-1], stub.STATE.variables
    paths = lift.explore_build(build, level='A')
    rec.paths = len(paths)
    for pi, (path, D) in enumerate(paths):
        P = 'p%d' % pi
        if path.exc is not None:
            if common.is_rejection(path.exc):
                rec.rejected_paths += 1
                continue
            common.crash_candidate(rec, P + '/crash', path, D, info=dict(ob='crash', kind='robust'))
            continue
        L, csl, res, prob, vars_ = path.result
        xvar, tvar = vars_[0], vars_[1]
        base = list(D.pre) + path.pc + sym.atom_constraints()
        info = dict(kind='robust')
        x, obj, extra = check_recorded(rec, P, base, L, prob, xvar, info=info)
        t = z3.Real('x_%d_0' % tvar.id)
        # the remaining recorded constraints are exactly  t <= -c_s.x  for every sample
        want = [t <= -z3.Sum([c_[i] * x[i] for i in range(L.n)]) for c_ in csl]
        got = [g for k, r, g in extra]
        ok = len(want) == len(got)
        nm = P + '/epigraph_rows'
        rec.obligations.append(dict(name=nm + '/count', verdict='unsat' if ok else 'sat', secs=0, form='Q2'))
        if not ok:
            rec.candidates.append(dict(name=nm + '/count', env={}, info=dict(info, ob='epigraph_count'), form='struct'))
            continue
        rec.prove_each(nm, base, [('s%d' % s, z3.And(z3.Implies(w, g), z3.Implies(g, w)), dict(info, ob='epigraph')) for s, (w, g) in enumerate(zip(want, got))],
                       form='Q2', margin=False)
        rec.prove(P + '/objective_is_t', base, obj == t, form='Q2', info=dict(info, ob='robust_objective'))
        assembled(rec, P, base, L, prob, xvar, res, x, obj, info)
    return rec.result()


def observe_robust(case, kw, env, rq):
    """pristine: real robust optimisation vs the property's two inequalities"""
    from . import c17
    D = lift.Domain(theta=env)
    if rq.get('info', {}).get('ob') in ('result_value', 'value') or 'value' in str(rq.get('name', '')):
        # what is violated (reported value = -c.x of the nominal costs) does not depend on the parameters: the witness usually has all
        # prices 0 (value 0 either way), so the replay runs the real robust optimisation on a seeded non-degenerate instance of the shape
        from . import c18
        D = lift.Domain(theta=c18.instance_env(kw['shape'], 0, 0))
    elif rq.get('kind') == 'replay':
        # the scenario rows handed to the solver are not the given samples: the witness (all prices 0) shows nothing, so the bounds of the
        # property are evaluated on an instance where the set-up prices point the other way than every scenario (price series swapped between
        # the set-up prices and the scenarios; everything else seeded)
        from . import c18
        src = c18.instance_env(kw['shape'], 0, 0)

        class Adversarial(dict):
            def get(self, name, default=0.0):
                import re
                m = re.match(r'^([pqrk])(?:_s\d+_)?(\d+)$', name)
                if m:
                    scen_ = '_s' in name
                    hi = (m.group(1) in 'pk') != scen_
                    return 10.0 if hi else 1.0
                return src.get(name, default)
        D = lift.Domain(theta=Adversarial())
    sh = shapes.build_portfolio(D, kw['shape'], **kw['kw'])
    op = sh.portf.setup_optim_problem(sh.prices, sh.tg)
    samples = c17.scenario_prices(D, sh.prices, sh.tg.T, 0, kw['S'])
    cs = sh.portf.create_cost_samples(samples, sh.tg)
    res = op.optimize(target='robust', samples=cs)
    o = dict(status='optimal' if not isinstance(res, str) else res)
    if not isinstance(res, str):
        x = np.asarray(res.x, dtype=float)
        o['worst'] = float(min(-float(np.dot(c_, x)) for c_ in cs))
        singles, optima = [], []
        for c_ in cs:
            op2 = sh.portf.setup_optim_problem(sh.prices, sh.tg)
            op2.c = np.asarray(c_, dtype=float)
            r2 = op2.optimize()
            if not isinstance(r2, str):
                x2 = np.asarray(r2.x, dtype=float)
                singles.append(float(min(-float(np.dot(cc, x2)) for cc in cs)))
                optima.append(float(r2.value))
        o['single_worst'] = singles; o['optima'] = optima
        o['reported_value'] = float(res.value); o['nominal_value'] = -float(np.dot(np.asarray(op.c, dtype=float), x))
    return o


def judge_robust(case, kwargs, cand, ans):
    o = ans['obs']
    if o.get('status') != 'optimal':
        return None, 'robust optimisation did not succeed on the witness instance: %s' % o.get('status')
    tol = 1e-6 * max(1.0, abs(o['worst']))
    if any(o['worst'] < s - tol for s in o['single_worst']):
        return True, 'robust worst case %.8g is below a single-scenario solution\'s worst case %.8g' % (o['worst'], max(o['single_worst']))
    if o['optima'] and o['worst'] > min(o['optima']) + tol:
        return True, 'robust worst case %.8g exceeds the smallest per-scenario optimum %.8g' % (o['worst'], min(o['optima']))
    if abs(o['reported_value'] - o['nominal_value']) > tol:
        return True, 'reported value %.8g is not -c.x = %.8g' % (o['reported_value'], o['nominal_value'])
    return False, 'robust bounds hold on the unshimmed code'


# ------------------------------------------------------------------------------------------------ contract validation
def run_validate(rec, seed, n_inst, offset):
    """instance testing of the solver contract with the real cvxpy: decided in the pristine interpreter (real solvers, exact z3 optimum)"""
    rec.pchecks.append(dict(extra=dict(n_inst=n_inst, seed=seed + offset)))
    rec.twins_ok += 1
    rec.vacuity_ok += 1
    return rec.result()


def random_instance(rnd):
    n = rnd.choice([2, 3, 4]); m = rnd.choice([1, 2, 3, 4])
    q = lambda lo, hi: Fraction(rnd.randint(lo * 4, hi * 4), 4)
    c = [q(-3, 3) for _ in range(n)]
    l = [q(-3, 0) for _ in range(n)]
    u = [l[i] + q(0, 4) for i in range(n)]
    A = [[q(-2, 2) if rnd.random() < 0.7 else Fraction(0) for _ in range(n)] for _ in range(m)]
    for r in range(m):
        # every row has a non-zero coefficient: cvxpy+SCIP reports success for MIPs containing an all-zero row `0 == 1`
        # (observed by this validation; such rows are outside the solver contract assumed here, EAO's set-up code skips empty rows)
        if all(v == 0 for v in A[r]):
            A[r][rnd.randrange(n)] = Fraction(1)
    ct = ''.join(rnd.choice('ULSN') for _ in range(m))
    x0 = [l[i] + (u[i] - l[i]) * Fraction(rnd.randint(0, 4), 4) for i in range(n)]
    feasible = rnd.random() < 0.75
    b = []
    for r in range(m):
        v = sum(A[r][j] * x0[j] for j in range(n))
        if not feasible and r == 0:
            big = sum(abs(A[r][j]) * max(abs(l[j]), abs(u[j])) for j in range(n)) + 1
            b.append(-big if ct[r] in 'U' else big)
            if ct[r] in 'SN':
                b[-1] = big
        else:
            b.append(v + (q(0, 1) if ct[r] == 'U' else (-q(0, 1) if ct[r] == 'L' else 0)))
    bools = [i for i in range(n) if rnd.random() < 0.3] if rnd.random() < 0.4 else []
    for i in bools:
        l[i], u[i] = Fraction(rnd.choice([0, 0, -1])), Fraction(rnd.choice([1, 1, 2]))
    return dict(n=n, m=m, c=c, l=l, u=u, A=A, b=b, ct=ct, bools=bools)


def exact_optimum(inst):
    o = z3.Optimize()
    x = [z3.Real('x%d' % i) for i in range(inst['n'])]
    rv = lambda f: z3.RealVal(str(f))
    for i in range(inst['n']):
        o.add(x[i] >= rv(inst['l'][i]), x[i] <= rv(inst['u'][i]))
        if i in inst['bools']:
            o.add(z3.Or(x[i] == 0, x[i] == 1))
    for r in range(inst['m']):
        lhs = z3.Sum([rv(inst['A'][r][j]) * x[j] for j in range(inst['n'])])
        ty = inst['ct'][r]
        o.add(lhs <= rv(inst['b'][r]) if ty == 'U' else (lhs >= rv(inst['b'][r]) if ty == 'L' else lhs == rv(inst['b'][r])))
    h = o.maximize(-z3.Sum([rv(inst['c'][i]) * x[i] for i in range(inst['n'])]))
    if o.check() != z3.sat:
        return None
    v = o.upper(h)
    return float(Fraction(str(v)))


def observe(case, kwargs, env, rq):
    kw = dict(kwargs)
    kind = kw.pop('kind')
    if kind != 'validate':
        if rq.get('kind') == 'replay':
            return stub_replay(kwargs, env, rq.get('info', {}))
        return dict(note='stub-level case: nothing to observe on the unshimmed code')
    import scipy.sparse as sp
    eao = lift.import_eao()
    rnd = random.Random(rq.get('extra', {}).get('seed', 0))
    viol = []
    checked = []
    n_inst = rq.get('extra', {}).get('n_inst', 4)
    for k in range(n_inst):
        inst = random_instance(rnd)
        opt = exact_optimum(inst)
        solvers_lp = [None, 'CLARABEL', 'SCIPY']
        solvers = ([None, 'SCIPY', 'SCIP'] if inst['bools'] else solvers_lp)
        for sv in solvers:
            mp = pd.DataFrame({'asset': ['a'] * inst['n'], 'node': ['n'] * inst['n'], 'type': ['d'] * inst['n'], 'var_name': ['v'] * inst['n'],
                               'time_step': [0] * inst['n']}, index=range(inst['n']))
            if inst['bools']:
                mp['bool'] = [i in inst['bools'] for i in range(inst['n'])]
            op = eao.optimization.OptimProblem(c=np.array([float(v) for v in inst['c']]), l=np.array([float(v) for v in inst['l']]),
                                               u=np.array([float(v) for v in inst['u']]),
                                               A=sp.lil_matrix(np.array([[float(v) for v in row] for row in inst['A']])),
                                               b=np.array([float(v) for v in inst['b']]), cType=inst['ct'], mapping=mp)
            try:
                res = op.optimize(solver=sv) if sv else op.optimize()
            except Exception as e:  # noqa: BLE001 - a solver that cannot take the class is not a contract violation
                continue
            tag = 'instance %d solver %s' % (k, sv or 'default')
            checked.append('instance%d/%s' % (k, sv or 'default'))
            if isinstance(res, str):
                if res == 'not successful' and opt is not None:
                    viol.append('%s: reports failure but the problem is feasible (optimum %.6g)' % (tag, opt))
                continue
            x = np.asarray(res.x, dtype=float)
            pj = obs.to_jsonable(obs.problem_obs(op))
            r = scen.feasibility_residual(pj, [float(v) for v in x], tol=1e-5)
            if r > 1e-5:
                viol.append('%s: returned x violates the problem by %.3g' % (tag, r))
            if opt is None:
                viol.append('%s: success reported for an infeasible problem' % tag)
                continue
            val = -float(np.dot(np.asarray(op.c, dtype=float), x))
            if abs(val - float(res.value)) > 1e-5 * max(1, abs(val)):
                viol.append('%s: value %.8g is not -c.x = %.8g' % (tag, float(res.value), val))
            if abs(float(res.value) - opt) > 1e-4 * max(1, abs(opt)):
                viol.append('%s: value %.8g, exact optimum %.8g' % (tag, float(res.value), opt))
    # split problems whose intervals repeat (same costs and bounds, e.g. a typical-day price profile) but differ in their rows: the result of
    # every interval must be a feasible optimal point of THAT interval's problem
    for k, (caps, reps) in enumerate((([100., 50., 20.], 3), ([5., 5., 1.], 3))):
        mk = lambda cap: eao.optimization.OptimProblem(
            c=np.array([-3., -1., 2.]), l=np.zeros(3), u=np.array([60., 60., 60.]), A=sp.lil_matrix(np.array([[1., 1., 0.], [0., 1., -1.]])),
            b=np.array([cap, 0.]), cType='US',
            mapping=pd.DataFrame({'asset': ['a'] * 3, 'node': ['n'] * 3, 'type': ['d'] * 3, 'var_name': ['v'] * 3, 'time_step': [0, 1, 2]}, index=range(3)))
        ops = [mk(c_) for c_ in caps]
        gm = pd.concat([o.mapping.set_index(o.mapping.index + 3 * i) for i, o in enumerate(ops)])
        sop = eao.optimization.SplitOptimProblem(ops, gm)
        try:
            res = sop.optimize()
        except Exception as e:  # noqa: BLE001
            viol.append('split instance %d: raises %s: %s' % (k, type(e).__name__, str(e)[:100]))
            continue
        if isinstance(res, str):
            viol.append('split instance %d: reports failure but every interval is feasible' % k)
            continue
        checked.append('split_instance%d' % k)
        x = np.asarray(res.x, dtype=float)
        tot = 0.0
        for i, o in enumerate(ops):
            xi = [float(v) for v in x[3 * i:3 * i + 3]]
            r = scen.feasibility_residual(obs.to_jsonable(obs.problem_obs(o)), xi, tol=1e-5)
            if r > 1e-5:
                viol.append('split instance %d interval %d: returned x violates the interval problem by %.3g' % (k, i, r))
            opt = exact_optimum(dict(n=3, m=2, c=[-3, -1, 2], l=[0, 0, 0], u=[60, 60, 60], A=[[1, 1, 0], [0, 1, -1]], b=[caps[i], 0], ct='US', bools=[]))
            tot += opt
        if abs(float(res.value) - tot) > 1e-4 * max(1, abs(tot)):
            viol.append('split instance %d: value %.8g, sum of the exact interval optima %.8g' % (k, float(res.value), tot))
    obligations = [dict(name='contract/%s' % t_, verdict='unsat', secs=0, form='L0') for t_ in checked]
    violations = []
    for k_, v_ in enumerate(viol):
        nm = 'contract/violation%d' % k_
        obligations.append(dict(name=nm, verdict='sat', secs=0, form='L0'))
        violations.append(dict(name=nm, text=v_, env={}, info=dict(kind='contract', seed=rq.get('extra', {}).get('seed', 0))))
    return dict(obligations=obligations, violations=violations, solver_s=0.0, samples=[dict(case=case, instances=n_inst, solver_runs=len(checked))])


def stub_replay(kwargs, env, info):
    """pristine interpreter (real numpy/scipy, floats) with only the solver stubbed: re-evaluate the hand-over numerically"""
    eao = lift.import_eao()
    kw = dict(kwargs)
    kind = kw.pop('kind')
    D = lift.Domain(theta=env)
    status = info.get('status', 'optimal')
    if kind == 'split':
        # (1) real numpy/scipy and floats with only the solver stubbed: the code around the solver calls (merging of interval results)
        from .. import cvxstub
        with_stub(status)
        sc = scen.run(D, kw['shape'], kw['kw'], kw['split'], with_output=False, env=env)
        res = sc.op.optimize()           # an exception here is the reproduction of a crash candidate
        out = dict(stub_result='str' if isinstance(res, str) else 'Results')
        # (2) with the REAL cvxpy for the numbers (optional: the witness point may be infeasible)
        if sys.modules.get('cvxpy') is cvxstub:
            del sys.modules['cvxpy']
        try:
            sc = scen.run(D, kw['shape'], kw['kw'], kw['split'], with_output=False, env=env)
            res = sc.op.optimize()
            vals = []
            for o_ in sc.ops:
                r = o_.optimize()
                vals.append(None if isinstance(r, str) else float(r.value))
            out.update(split_value=None if isinstance(res, str) else float(res.value), interval_values=vals,
                       n_x=None if isinstance(res, str) else len(res.x), n_c=len(sc.op.c))
            if info.get('ob') == 'split_duals' and not isinstance(res, str):
                dn_ = res.duals.get('N') if isinstance(res.duals, dict) else None
                out.update(n_nodal_duals=None if dn_ is None else len(dn_), n_nodal_records=len(sc.op.map_nodal_restr or []))
                try:
                    eao.io.extract_output(sc.sh.portf, sc.op, res)
                except Exception as e:  # noqa: BLE001
                    out['extract_error'] = '%s: %s' % (type(e).__name__, str(e)[:120])
            if info.get('ob') == 'split_x2':
                res_b = sc.op.optimize()           # second call on the same object
                out.update(second_value=None if isinstance(res_b, str) else float(res_b.value), second_n_x=None if isinstance(res_b, str) else len(res_b.x))
            if not isinstance(res, str) and len(res.x) == len(sc.op.c):
                # each part of the returned vector must be feasible for the interval problem it belongs to
                from .. import obs as _obs
                worst, off = 0.0, 0
                for o_ in sc.ops:
                    k_ = len(o_.c)
                    po = _obs.problem_obs(o_)
                    po = dict(po, A=[[float(v) for v in row] for row in po['A']] if len(po['A']) else [], b=[float(v) for v in po['b']],
                              l=[float(v) for v in po['l']], u=[float(v) for v in po['u']])
                    worst = max(worst, scen.feasibility_residual(po, [float(v) for v in res.x[off:off + k_]]))
                    off += k_
                out['interval_infeasibility'] = worst
        except Exception as e:  # noqa: BLE001
            out['real_solver_error'] = '%s: %s' % (type(e).__name__, e)
        return out
    if info.get('ob') in ('soft_result_x', 'soft_result_value', 'soft_returns'):
        # what is violated does not depend on the parameters: the REAL relaxed solve of an instance whose relaxation is fractional
        # (max -5 x0 + x1,  x1 <= 10 x0,  x0 flagged boolean,  x1 <= 7  ->  relaxed optimum x = (0.7, 7), value 3.5)
        import scipy.sparse as sp
        from .. import cvxstub
        if sys.modules.get('cvxpy') is cvxstub:
            del sys.modules['cvxpy']
        mp = pd.DataFrame({'asset': ['a', 'a'], 'node': ['n', 'n'], 'type': ['i', 'd'], 'var_name': ['on', 'disp'], 'time_step': [0, 0], 'bool': [True, False]}, index=[0, 1])
        op = eao.optimization.OptimProblem(c=np.array([5., -1.]), l=np.array([0., 0.]), u=np.array([1., 7.]), A=sp.lil_matrix(np.array([[-10., 1.]])), b=np.array([0.]),
                                           cType='U', mapping=mp)
        r = op.optimize(make_soft_problem=True)
        if isinstance(r, str):
            return dict(soft_instance='solver: ' + r)
        x = [float(v) for v in r.x]
        return dict(soft_instance=dict(x=x, value=float(r.value), minus_cx=-(5. * x[0] - x[1])))
    stub = with_stub(status)
    if kind in ('stub', 'soft'):
        op = synthetic_concrete(D, kw['m'], kw['n'], kw['mapping'], info.get('ctype', kw['ctypes'][0]))
        L = lpsem.LP(op)
        if kind == 'soft':
            op.optimize(make_soft_problem=True)
            stub.reset(status)
        res = op.optimize()
    elif kind == 'assembled':
        sc = scen.run(D, kw['shape'], kw['kw'], None, with_output=False, env=env)
        op = sc.op
        L = lpsem.LP(op)
        res = op.optimize()
    else:
        return dict(note='no numeric replay for this case kind')
    out = dict(status_result=res if isinstance(res, str) else 'Results')
    if not stub.STATE.problems:
        return out
    prob, xvar = stub.STATE.problems[-1], stub.STATE.variables[0]
    out['booleans_ok'] = sorted(xvar.boolean_idx) == sorted(L.bools)
    out['recorded_bools'] = sorted(xvar.boolean_idx); out['flagged'] = sorted(L.bools)

    def norm(co, op_, rhs):
        if isinstance(rhs, float) and rhs in (float('inf'), float('-inf')):
            rv = rhs                    # an infinite bound handed to the solver
        else:
            rv = round(float(sym.evalf(zl(rhs), {})), 9)
        return (tuple(sorted((int(j), round(float(sym.evalf(zl(v), {})), 9)) for j, v in co.items() if abs(float(sym.evalf(zl(v), {}))) > 0)), op_, rv)
    recd = set()
    for c in prob.constraints:
        for co, op_, rhs in c.rows():
            if all(key[0] == xvar.id for key in co):
                recd.add(norm({key[1]: v for key, v in co.items()}, op_, rhs))
    want = set()
    for i in range(L.n):
        want.add(norm({i: 1.0}, '<=', L.u[i])); want.add(norm({i: 1.0}, '>=', L.l[i]))
    for co, ty, rhs in L.rows:
        want.add(norm(co, {'U': '<=', 'L': '>=', 'S': '==', 'N': '=='}[ty], rhs))
    out['rows_ok'] = recd == want
    oc, o0 = prob.objective.expr.rows[0]
    if all(key[0] == xvar.id for key in oc):
        got = {key[1]: float(sym.evalf(zl(v), {})) for key, v in oc.items()}
        out['objective_ok'] = all(abs(got.get(i, 0.0) + float(sym.evalf(L.c[i], {}))) < 1e-9 for i in range(L.n))
    out['returns_x_ok'] = (not isinstance(res, str)) and res.x is xvar.value if status == 'optimal' else None
    return out


def synthetic_concrete(D, m, n, mapping, ctype):
    import scipy.sparse as sp
    eao = lift.import_eao()
    c = D.arr('c', n); l = D.arr('l', n); u = D.arr('u', n)
    A = np.array([[D('a%d_%d' % (r, j)) for j in range(n)] for r in range(m)], dtype=float).reshape(m, n)
    b = D.arr('b', m)
    idx, flagged = MAPPINGS[mapping]
    mp = pd.DataFrame({'asset': ['a'] * len(idx), 'node': ['n'] * len(idx), 'type': ['d'] * len(idx), 'var_name': ['v'] * len(idx),
                       'time_step': list(range(len(idx)))}, index=idx)
    if flagged:
        mp['bool'] = [k in flagged for k in range(len(idx))]
    return eao.optimization.OptimProblem(c=c, l=l, u=u, A=(sp.lil_matrix(A) if m else None), b=(b if m else None), cType=(ctype if m else None), mapping=mp)


def judge(case, kwargs, cand, ans):
    """stub-level candidates are confirmed by re-running the hand-over with real numpy/scipy and floats (only the solver stubbed)"""
    info = cand.get('info', {})
    if 'error' in ans:
        if cand.get('form') == 'crash' or info.get('ob') == 'crash':
            return True, 'optimize() raises around the solver call: %s' % ans['error'][:200]
        return None, ans['error']
    o = ans.get('obs', {})
    ob = info.get('ob')
    if ob == 'crash':
        return False, 'no exception with real numpy/scipy'
    if ob in ('soft_result_x', 'soft_result_value', 'soft_returns'):
        si = ans['obs'].get('soft_instance')
        if not isinstance(si, dict):
            return None, 'relaxed instance not solved: %s' % si
        bad = abs(si['value'] - si['minus_cx']) > 1e-5 or abs(si['x'][0] - 0.7) > 1e-4 or abs(si['x'][1] - 7.0) > 1e-4
        return bad, 'optimize(make_soft_problem=True) on the relaxation with optimum x=(0.7, 7), value 3.5 returns x=%s, value %.6g (-c.x of the returned x: %.6g)' % (si['x'], si['value'], si['minus_cx'])
    if ob == 'split_status':
        return True, 'split optimisation returns a result although the solver reported %s for an interval' % info.get('status')
    if ob == 'split_x2':
        v1, v2 = o.get('split_value'), o.get('second_value')
        bad = o.get('second_n_x') != o.get('n_c') or (v1 is not None and v2 is not None and abs(v1 - v2) > 1e-6 * max(1, abs(v1)))
        return bad, 'second optimisation of the same split problem: value %s (first call %s), len(x) %s for %s variables' % (v2, v1, o.get('second_n_x'), o.get('n_c'))
    if ob == 'split_duals' and (o.get('extract_error') or (o.get('n_nodal_duals') is not None and o.get('n_nodal_duals') != o.get('n_nodal_records'))):
        return True, 'split result: %s nodal duals for %s recorded nodal rows; extract_output: %s' % (o.get('n_nodal_duals'), o.get('n_nodal_records'), o.get('extract_error', 'ok'))
    if ob in ('split_value', 'split_x', 'split_duals'):
        iv = o.get('interval_values') or []
        bad = o.get('n_x') != o.get('n_c') or (None not in iv and o.get('split_value') is not None and abs(sum(iv) - o['split_value']) > 1e-6 * max(1, abs(o['split_value'])))
        bad = bad or (o.get('interval_infeasibility') or 0.0) > 1e-5
        return bad, 'split result: value %s vs interval values %s; len(x) %s vs %s variables; parts of x violate their interval problem by %s' % (
            o.get('split_value'), iv, o.get('n_x'), o.get('n_c'), o.get('interval_infeasibility'))
    if ob == 'booleans':
        return (o.get('booleans_ok') is False), 'variables declared boolean to the solver %s, flagged in the mapping %s' % (o.get('recorded_bools'), o.get('flagged'))
    if ob in ('F=>rec', 'rec=>F', 'result_feasible'):
        bad = o.get('rows_ok') is False or o.get('booleans_ok') is False
        return bad, 'the constraints handed to the solver are not the rows/bounds of the problem (rows equal: %s, booleans equal: %s)' % (o.get('rows_ok'), o.get('booleans_ok'))
    if ob in ('objective', 'result_value'):
        return (o.get('objective_ok') is False), 'the objective handed to the solver is not -c.x'
    if ob == 'returns_x':
        return (o.get('returns_x_ok') is False), 'the returned x is not the solver\'s x'
    if ob == 'status':
        want = 'inaccurate' if info.get('status') == 'optimal_inaccurate' else 'not successful'
        return (o.get('status_result') != want), 'solver status %s is reported as %r' % (info.get('status'), o.get('status_result'))
    return None, 'no numeric replay for obligation kind %s' % ob
