"""Evidence files /verif/evidence/<id>.json, rewritten by every run from what that run measured."""
import json
import os
from collections import Counter

ROOT = os.path.dirname(os.path.dirname(os.path.abspath(__file__)))

EXPLANATION = ('bounded symbolic verification: the real EAO set-up / optimise / output code is executed on z3-backed '
               'symbolic scalars (lifted execution, all feasible paths per shape); each obligation is an SMT query whose '
               'unsat verdict covers every parameter value / price / feasible solution vector within the stated structural '
               'bounds; sat models are replayed on the unshimmed code before being reported')


def build(prop, tier, seed, mod, results, wall, violations, known_lines, inconclusive, errors, unconfirmed,
          n_valid_ok, valid_bad):
    from .shims import SHIM_LIST
    obligations = [o for r in results for o in r.get('obligations', [])]
    verdicts = Counter(o['verdict'] for o in obligations)
    forms = Counter(o.get('form', '?') for o in obligations)
    funcs = sorted({f for r in results for f in r.get('functions', [])})
    samples = []
    for r in results:
        for s in r.get('samples', []):
            if len(samples) < 8:
                samples.append(s)
    if not samples:
        samples = [dict(case=r['case']) for r in results[:3]]
    distinct = sum(r.get('distinct', 0) for r in results if not r.get('vacuity_bad') and not r.get('twins_bad'))
    slowest = sorted(obligations, key=lambda o: -o.get('secs', 0))[:3]
    cov = dict(
        explanation=EXPLANATION,
        evaluations=len(obligations),
        distinct_nontrivial=distinct,
        rule=('one evaluation = one SMT query (obligation) for a (shape, path) pair; it counts as distinct and non-trivial '
              'when its (case, path, obligation) name is new, the assumption set of its family was shown satisfiable '
              '(vacuity witness) and no reachability twin of its case failed'),
        samples=samples,
        obligations=len(obligations),
        discharged=verdicts.get('unsat', 0),
        queries_by_verdict=dict(verdicts),
        queries_by_form=dict(forms),
        decided_without_solver_call=sum(1 for o in obligations if not o.get('secs')),
        decided_without_solver_call_note='obligations whose two sides are identical after term normalisation (z3 simplify) or that are purely structural (index sets, orders, object identity) are recorded with secs=0; all others are SMT queries',
        solver_s=round(sum(r.get('solver_s', 0) for r in results), 3),
        slowest_queries=slowest,
        cases=len(results),
        case_ids=[r['case'] for r in results][:200],
        paths_explored=sum(r.get('paths', 0) for r in results),
        paths_rejected_by_code=sum(r.get('rejected_paths', 0) for r in results),
        exhaustive=not errors and not inconclusive,
        twins_sat=sum(r.get('twins_ok', 0) for r in results),
        twins_failed=sum(len(r.get('twins_bad', [])) for r in results),
        vacuity_witnesses=sum(r.get('vacuity_ok', 0) for r in results),
        traces_validated_against_impl=n_valid_ok,
        shim_mismatches=len(valid_bad),
        subtolerance=sum(r.get('subtolerance', 0) for r in results),
        functions_encoded=funcs,
        shims=SHIM_LIST + list(getattr(mod, 'EXTRA_SHIMS', [])),
        bounds=getattr(mod, 'BOUNDS', {}).get(tier, getattr(mod, 'BOUNDS', {})),
        outside_claim=getattr(mod, 'OUTSIDE', []),
        known_findings_hit=sorted({k[0]['id'] for k in known_lines}),
        unconfirmed_candidates=len(unconfirmed),
        inconclusive=len(inconclusive),
        harness_errors=len(errors),
        notes=[n for r in results for n in r.get('notes', [])][:40],
        solver='z3 %s (python API)' % _z3v(),
        trusted_base=['z3', 'CPython + numpy object-dtype loops + pandas (structure only)', 'vf.shims (validated per run)',
                      'vf.lpsem (LP semantics)'] + list(getattr(mod, 'TRUSTED', [])),
    )
    extra = {}
    for r in results:
        for k, v in (r.get('extra') or {}).items():
            if isinstance(v, (int, float)):
                extra[k] = extra.get(k, 0) + v
    cov.update(extra)
    return dict(property_id=prop, tier=tier if tier in ('quick', 'thorough') else 'quick', seed=int(seed), level='other',
                coverage=cov, assumptions=list(getattr(mod, 'ASSUMPTIONS', [])) + [
                    'exact real arithmetic instead of IEEE doubles (floats read as the rationals they denote, 4-ulp snap)',
                    'structure (asset classes, nodes, steps, windows, frequencies, names, flags) ranges over the stated catalogue only'],
                wall_s=round(wall, 2), violations=len(violations))


def _z3v():
    try:
        import z3
        return z3.get_version_string()
    except Exception:  # noqa: BLE001
        return '?'


def write(prop, ev):
    d = os.environ.get('VERIF_EVIDENCE_DIR') or os.path.join(ROOT, 'evidence')     # (development aid: mutation runs write elsewhere)
    os.makedirs(d, exist_ok=True)
    with open(os.path.join(d, prop + '.json'), 'w') as f:
        json.dump(ev, f, indent=1, default=str)
