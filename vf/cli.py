"""./check <Cxx> --tier quick|thorough   |   ./check --replay <file>

Exit 0: every obligation discharged (or listed known finding), twins sat, vacuity witnesses found, shim validation clean.
Exit 1: a replay-confirmed, unlisted violation: prints `VIOLATION property=<id> replay=<path>`.
Exit 2: harness error / inconclusive (never a pass).
"""
import argparse
import importlib
import json
import multiprocessing as mp
import os
import sys
import time
import traceback

ROOT = os.path.dirname(os.path.dirname(os.path.abspath(__file__)))
MAX_REPLAYS_PER_CASE = 6     # unlisted candidates replayed per case (further ones are counted; they never turn into a silent pass)
MAX_REPLAYS_PER_KNOWN = 2    # candidates replayed per case and known-finding id


def select_for_replay(cands):
    """indices of the candidates to replay: unlisted ones first, then a few per known-finding id"""
    plain = [i for i, c in enumerate(cands) if not c.get('known')]
    chosen = plain[:MAX_REPLAYS_PER_CASE]
    per = {}
    for i, c in enumerate(cands):
        k = c.get('known')
        if k and per.get(k, 0) < MAX_REPLAYS_PER_KNOWN:
            per[k] = per.get(k, 0) + 1
            chosen.append(i)
    return chosen, len(plain) - min(len(plain), MAX_REPLAYS_PER_CASE)


class CaseTimeout(BaseException):
    pass


def lpsem_EnoughCandidates():
    from .lpsem import EnoughCandidates
    return EnoughCandidates


def _alarm(signum, frame):
    raise CaseTimeout()


def _worker(args):
    prop, case_id, kwargs, tier, seed = args
    t0 = time.time()
    import signal
    budget = int(os.environ.get('VERIF_CASE_TIMEOUT', '1800' if tier == 'thorough' else '600'))
    try:
        signal.signal(signal.SIGALRM, _alarm)
        # repeating: code under test (or a library) may swallow the first one in a bare `except:` -- it is raised again every 20 s until the case ends
        signal.setitimer(signal.ITIMER_REAL, budget, 20)
    except (ValueError, AttributeError):
        pass
    try:
        from . import lift
        lift.install()
        from . import common as _common
        mod, kw_ = _common.resolve(prop, kwargs)
        with lift.trace_functions():
            res = mod.run_case(case_id, tier=tier, seed=seed, **kw_)
        signal.setitimer(signal.ITIMER_REAL, 0)
        res['prop'] = prop
        res['wall_s'] = time.time() - t0
        res['kwargs'] = kwargs
        return res
    except lpsem_EnoughCandidates() as e:
        res = e.rec.result()
        res['wall_s'] = time.time() - t0
        res['kwargs'] = kwargs
        try:
            signal.setitimer(signal.ITIMER_REAL, 0)
        except Exception:  # noqa: BLE001
            pass
        return res
    except CaseTimeout:
        signal.setitimer(signal.ITIMER_REAL, 0)
        return dict(prop=prop, case=case_id, error='case exceeded its wall-clock budget of %d s (inconclusive, never a pass)' % budget, tb='',
                    wall_s=time.time() - t0, kwargs=kwargs)
    except BaseException as e:  # noqa: BLE001 - report, never swallow
        try:
            signal.setitimer(signal.ITIMER_REAL, 0)
        except Exception:  # noqa: BLE001
            pass
        return dict(prop=prop, case=case_id, error='%s: %s' % (type(e).__name__, e), tb=traceback.format_exc(),
                    wall_s=time.time() - t0, kwargs=kwargs)


def run_property(prop, tier, seed, jobs=None, only=None):
    from . import evidence, known, replay
    t0 = time.time()
    mod = importlib.import_module('vf.props.' + prop.lower())
    os.environ['VERIF_TIER_ACTIVE'] = tier
    os.environ['VERIF_SEED_ACTIVE'] = str(seed)
    cases = mod.cases(tier, seed)
    if only:
        cases = [c for c in cases if only in c[0]]
    jobs = jobs or min(int(os.environ.get('VERIF_JOBS', '16')), max(1, len(cases)))
    work = [(prop, cid, kw, tier, seed) for cid, kw in cases]
    if jobs > 1:
        ctx = mp.get_context('fork')
        with ctx.Pool(jobs, maxtasksperchild=8) as pool:
            results = list(pool.imap_unordered(_worker, work, chunksize=1))
    else:
        results = [_worker(w) for w in work]
    results.sort(key=lambda r: r['case'])

    errors = [r for r in results if 'error' in r]
    inconclusive, violations, known_lines, unconfirmed = [], [], [], []
    findings = known.load()
    n_valid_ok, valid_bad = 0, []

    # ---- shim validation (translation validation of the lifting layer) + replays, in pristine subprocesses
    requests = []
    for r in results:
        if 'error' in r:
            continue
        for i, v in enumerate(r.get('validations', [])):
            requests.append(dict(kind='validate', prop=prop, case=r['case'], kwargs=r['kwargs'], idx=i, env=v['env'],
                                 extra=v.get('extra', {})))
        for i, pc in enumerate(r.get('pchecks', [])):
            requests.append(dict(kind='pcheck', prop=prop, case=r['case'], kwargs=r['kwargs'], idx=i, env=pc.get('env', {}), extra=pc.get('extra', {})))
        r['_replay_idx'], r['_not_replayed'] = select_for_replay(r.get('candidates', []))
        for i in r['_replay_idx']:
            c = r['candidates'][i]
            requests.append(dict(kind='replay', prop=prop, case=r['case'], kwargs=r['kwargs'], idx=i, env=c['env'],
                                 name=c['name'], info=c['info']))
    answers = replay.run_pristine(requests, tier=tier, seed=seed) if requests else []
    ans = {(a['kind'], a['case'], a['idx']): a for a in answers}

    for r in results:
        if 'error' in r:
            continue
        for o in r['obligations']:
            if o['verdict'] == 'unknown':
                inconclusive.append((r['case'], o['name']))
        for tb in r['twins_bad']:
            inconclusive.append((r['case'], 'twin ' + str(tb)))
        for vb in r['vacuity_bad']:
            inconclusive.append((r['case'], 'vacuous ' + str(vb)))
        for i, v in enumerate(r.get('validations', [])):
            a = ans.get(('validate', r['case'], i))
            ok, why = replay.compare_validation(v, a)
            if ok:
                n_valid_ok += 1
            else:
                valid_bad.append((r['case'], why))
        for i, pc in enumerate(r.get('pchecks', [])):
            # obligations that need the real numeric solver are decided in the pristine interpreter (solver queries included)
            a = ans.get(('pcheck', r['case'], i))
            if a is None or 'error' in a:
                inconclusive.append((r['case'], 'pristine check failed: %s' % ((a or {}).get('error', 'no answer'))[:300]))
                continue
            po = a['obs']
            r['obligations'].extend(po.get('obligations', []))
            r['solver_s'] = r.get('solver_s', 0) + po.get('solver_s', 0)
            r['distinct'] = r.get('distinct', 0) + len({o['name'] for o in po.get('obligations', [])})
            r.setdefault('samples', []).extend(po.get('samples', [])[:2])
            for o in po.get('obligations', []):
                if o['verdict'] == 'unknown':
                    inconclusive.append((r['case'], o['name']))
            for v in po.get('violations', []):
                path = replay.write_replay(prop, r['case'], r['kwargs'], dict(name=v['name'], env=v.get('env', {}), info=v.get('info', {})), v['text'])
                violations.append((r['case'], v['name'], v['text'], path))
        n_viol_before = len(violations)
        for i in r.get('_replay_idx', []):
            c = r['candidates'][i]
            a = ans.get(('replay', r['case'], i))
            from . import common as _common
            jmod, jkw = _common.resolve(prop, r['kwargs'])
            confirmed, text = jmod.judge(r['case'], jkw, c, a) if a else (None, 'no answer from the pristine interpreter')
            kf = known.by_id(findings, c['known']) if c.get('known') else None
            if confirmed is True:
                if kf is not None and kf.get('status') == 'open':
                    known_lines.append((kf, r['case'], c['name'], text))
                else:
                    path = replay.write_replay(prop, r['case'], r['kwargs'], c, text)
                    violations.append((r['case'], c['name'], text, path))
            elif confirmed is False:
                unconfirmed.append((r['case'], c['name'], text))
            else:
                inconclusive.append((r['case'], 'replay failed: %s: %s' % (c['name'], text)))
        if r.get('_not_replayed') and len(violations) == n_viol_before:
            inconclusive.append((r['case'], '%d further candidates were not replayed and none of the replayed ones was confirmed' % r['_not_replayed']))
        for kh in r.get('known_hits', []):
            kf = known.by_id(findings, kh[0])
            if kf is not None and kf.get('status') == 'open':
                known_lines.append((kf, r['case'], kh[1], kh[2] if len(kh) > 2 else ''))
            else:
                # a finding that is not listed as open is an ordinary violation
                path = replay.write_replay(prop, r['case'], r['kwargs'], dict(name=kh[1], env={}, info={}), str(kh[2:]))
                violations.append((r['case'], kh[1], 'unlisted: ' + str(kh[2:]), path))

    wall = time.time() - t0
    ev = evidence.build(prop, tier, seed, mod, results, wall, violations, known_lines, inconclusive, errors,
                        unconfirmed, n_valid_ok, valid_bad)
    evidence.write(prop, ev)

    # ---- report
    tot_ob = sum(len(r.get('obligations', [])) for r in results)
    print('%s tier=%s seed=%d: %d cases, %d obligations, %d paths, %.1fs solver, %.1fs wall' % (
        prop, tier, seed, len(results), tot_ob, sum(r.get('paths', 0) for r in results),
        sum(r.get('solver_s', 0) for r in results), wall))
    seen = set()
    for kf, case, name, text in known_lines:
        if kf['id'] in seen:
            continue
        seen.add(kf['id'])
        print('KNOWN-FINDING: property=%s %s [%s] (e.g. case %s, obligation %s)' % (prop, kf['what'], kf['id'], case, name))
    for e in errors:
        print('HARNESS-ERROR case=%s %s' % (e['case'], e['error']))
        sys.stderr.write(e.get('tb', '') + '\n')
    for case, what in inconclusive[:20]:
        print('INCONCLUSIVE case=%s %s' % (case, what))
    for case, why in valid_bad[:20]:
        print('SHIM-MISMATCH case=%s %s' % (case, why))
    for case, name, text in unconfirmed[:20]:
        print('UNCONFIRMED-CANDIDATE case=%s obligation=%s %s' % (case, name, text))
    for case, name, text, path in violations:
        print('  violated: case=%s obligation=%s %s' % (case, name, text))
    if violations:
        print('VIOLATION property=%s replay=%s' % (prop, violations[0][3]))
        for v in violations[1:]:
            print('VIOLATION property=%s replay=%s' % (prop, v[3]))
        return 1
    if errors or inconclusive or valid_bad or unconfirmed:
        return 2
    print('%s OK' % prop)
    return 0


def main(argv=None):
    ap = argparse.ArgumentParser()
    ap.add_argument('prop', nargs='?')
    ap.add_argument('--tier', default=os.environ.get('VERIF_TIER', 'quick'))
    ap.add_argument('--seed', type=int, default=int(os.environ.get('VERIF_SEED', '0')))
    ap.add_argument('--jobs', type=int, default=None)
    ap.add_argument('--only', default=None, help='substring filter on case ids (development aid)')
    ap.add_argument('--replay', default=None)
    a = ap.parse_args(argv)
    if a.replay:
        from . import replay
        return replay.replay_file(a.replay)
    if not a.prop:
        ap.error('property id required')
    return run_property(a.prop.upper(), a.tier, a.seed, a.jobs, a.only)


if __name__ == '__main__':
    sys.exit(main())
