"""Independent textbook formulation over *physical* variables, written from the asset docstrings.
This module imports nothing from eaopack.  Input: a plain spec (dicts of z3 terms / python numbers); output: variables,
constraints and the objective (total discounted cash, to be maximised).

Conventions (pinned by the maintainers' tests, see DESIGN 4.3): positive dispatch = delivery into the node and costs
`price`; per-step volume limit = rate x step length; cash flows of step t are discounted by (1+wacc)^(-elapsed years through
the END of step t); storage level recursion; take volumes prorated by the covered (active) part of the period.
"""
from fractions import Fraction

import z3

from .sym import pw, ratval, lift as zl

R0 = z3.RealVal(0)


def discount(wacc, elapsed_days_end):
    """(1+wacc)^(-elapsed/365 d), elapsed measured through the end of the step"""
    w = zl(wacc)
    if z3.is_rational_value(z3.simplify(w)) and z3.simplify(w).numerator_as_long() == 0:
        return ratval(Fraction(1))
    return pw(zl(1.0) + w, -Fraction(elapsed_days_end) / 365)


class _Tagged(list):
    """objective terms; every appended term is also recorded with the (asset, step) it belongs to"""

    def __init__(self, owner):
        super().__init__()
        self.owner = owner

    def append(self, term):
        super().append(term)
        self.owner.obj_tagged.append((self.owner._cur[0], self.owner._cur[1], term))


class Ref:
    def __init__(self):
        self.vars = {}          # name -> z3 Real
        self.cons = []          # (label, z3 Bool)
        self.obj_terms = _Tagged(self)
        self.obj_tagged = []    # (asset, step, term)
        self._cur = (None, None)
        self.node_in = {}       # (node, t) -> list of terms delivered into the node
        self.ints = []          # names of {0,1} variables

    def var(self, name):
        v = z3.Real('r_' + name)
        self.vars[name] = v
        return v

    def add(self, label, c):
        self.cons.append((label, c))

    def deliver(self, node, t, term):
        self.node_in.setdefault((node, t), []).append(term)

    @property
    def obj(self):
        return z3.Sum(self.obj_terms) if self.obj_terms else R0

    def close(self):
        for (node, t), terms in sorted(self.node_in.items()):
            self.add('balance/%s/%d' % (node, t), z3.Sum(terms) == 0 if len(terms) > 1 else terms[0] == 0)

    def all_constraints(self):
        return [c for _, c in self.cons]


def build(spec):
    """spec: dict(T, dt=[terms], elapsed_days_end=[Fractions], assets=[...]) -> Ref"""
    R = Ref()
    T = spec['T']
    dt = spec['dt']
    for a in spec['assets']:
        kind = a['kind']
        nm = a['name']
        act = a['active']
        DF = [discount(a['wacc'], spec['elapsed_days_end'][t]) for t in range(T)]
        if kind in ('contract', 'multicommodity'):
            g = {}
            for t in act:
                R._cur = (nm, t)
                g[t] = R.var('%s_g%d' % (nm, t))
                ab = R.var('%s_a%d' % (nm, t))          # a >= |g|: volume that pays the spread
                R.add('%s/cap_lo/%d' % (nm, t), g[t] >= a['min_cap'][t] * dt[t])
                R.add('%s/cap_hi/%d' % (nm, t), g[t] <= a['max_cap'][t] * dt[t])
                R.add('%s/abs1/%d' % (nm, t), ab >= g[t])
                R.add('%s/abs2/%d' % (nm, t), ab >= -g[t])
                R.obj_terms.append(-DF[t] * (a['price'][t] * g[t] + a['extra_costs'][t] * ab))
                if kind == 'contract':
                    R.deliver(a['nodes'][0], t, g[t])
                else:
                    for node, f in zip(a['nodes'], a['factors']):
                        R.deliver(node, t, f * g[t])
            for k, (steps, vol, frac_num, frac_den, sense) in enumerate(a.get('takes', [])):
                if not steps:
                    continue        # period without any active step contributes nothing
                tot = z3.Sum([g[t] for t in steps]) if len(steps) > 1 else g[steps[0]]
                lim = vol * ratval(Fraction(frac_num, frac_den))
                R.add('%s/take%d' % (nm, k), tot <= lim if sense == 'max' else tot >= lim)
        elif kind == 'transport':
            for t in act:
                R._cur = (nm, t)
                f = R.var('%s_f%d' % (nm, t))
                R.add('%s/cap_lo/%d' % (nm, t), f >= a['min_cap'] * dt[t])
                R.add('%s/cap_hi/%d' % (nm, t), f <= a['max_cap'] * dt[t])
                R.deliver(a['nodes'][0], t, -f)
                R.deliver(a['nodes'][1], t, a['eff'] * f)
                R.obj_terms.append(-DF[t] * a['cost'][t] * z3.If(f >= 0, f, -f))      # costs act on the transported quantity |f| (reverse direction: f <= 0)
            for k, (steps, vol, frac_num, frac_den, sense) in enumerate(a.get('takes', [])):
                if not steps:
                    continue
                tot = z3.Sum([R.vars['%s_f%d' % (nm, t)] for t in steps])
                lim = vol * ratval(Fraction(frac_num, frac_den))
                R.add('%s/take%d' % (nm, k), tot <= lim if sense == 'max' else tot >= lim)
        elif kind == 'storage':
            prev = a['start']
            infl_cum = R0
            for t in act:
                R._cur = (nm, None)          # holding cost couples the steps of a storage: one piece per storage
                ch = R.var('%s_ch%d' % (nm, t)); dis = R.var('%s_dis%d' % (nm, t)); lv = R.var('%s_lv%d' % (nm, t))
                R.add('%s/ch_lo/%d' % (nm, t), ch >= 0)
                R.add('%s/ch_hi/%d' % (nm, t), ch <= a['cap_in'] * dt[t])
                R.add('%s/dis_lo/%d' % (nm, t), dis >= 0)
                R.add('%s/dis_hi/%d' % (nm, t), dis <= a['cap_out'] * dt[t])
                R.add('%s/recursion/%d' % (nm, t), lv == prev + a['eff'] * ch - dis + a['inflow'] * dt[t])
                R.add('%s/lv_lo/%d' % (nm, t), lv >= 0)
                R.add('%s/lv_hi/%d' % (nm, t), lv <= a['size'])
                infl_cum = infl_cum + a['inflow'] * dt[t]
                price = a['price'][t] if a.get('price') is not None else R0
                R.obj_terms.append(DF[t] * (price * (ch - dis) - a['cost_in'] * ch - a['cost_out'] * dis))
                # holding cost on the level; the constant part on start level and inflow is documented as not included
                R.obj_terms.append(-a['cost_store'] * dt[t] * DF[t] * (lv - a['start'] - infl_cum))
                n_in, n_out = a['nodes'][0], a['nodes'][-1]
                R.deliver(n_in, t, -ch)
                R.deliver(n_out, t, dis)
                prev = lv
            if act:
                R.add('%s/end' % nm, prev == a['end'])
        elif kind == 'orderbook':
            for k, o in enumerate(a['orders']):
                if not o['steps']:
                    continue        # orders with no step inside the horizon are inert
                e = R.var('%s_e%d' % (nm, k))
                R.add('%s/exec_lo/%d' % (nm, k), e >= 0)
                R.add('%s/exec_hi/%d' % (nm, k), e <= 1)
                if a.get('full_exec'):
                    R.add('%s/exec_int/%d' % (nm, k), z3.Or(e == 0, e == 1))
                    R.ints.append('%s_e%d' % (nm, k))
                for t in o['steps']:
                    R._cur = (nm, None)
                    R.deliver(a['nodes'][0], t, e * o['capa'] * dt[t])
                    R.obj_terms.append(-e * o['capa'] * o['price'] * dt[t] * DF[t])
        else:
            raise KeyError(kind)
    R.close()
    return R
