"""Semantics of an assembled EAO problem (independent of OptimProblem.optimize, which C03 checks against this)
and the query driver (verdict bookkeeping, vacuity, twins, margins).

F(x)  := l <= x <= u  /\  rows by cType (U <=, L >=, S =, N =)  /\  x_i in {0,1} for variables flagged bool
val(x):= -c.x
"""
import time
from fractions import Fraction

import numpy as np
import pandas as pd
import z3

from .sym import Sym, lift, evalf, model_env, atom_constraints, frac_of
from .shims import to_dense

ZERO = z3.RealVal(0)


def is_zero_term(t):
    return z3.is_rational_value(t) and t.numerator_as_long() == 0


class LP:
    """normalised view of an OptimProblem produced by the real code (lifted or concrete)"""

    def __init__(self, op):
        self.op = op
        self.n = len(op.c)
        self.c = [lift(v) for v in np.asarray(op.c, dtype=object).reshape(-1)]
        self.l = [lift(v) for v in np.asarray(op.l, dtype=object).reshape(-1)]
        self.u = [lift(v) for v in np.asarray(op.u, dtype=object).reshape(-1)]
        A = to_dense(op.A)
        self.rows = []
        self.cType = op.cType or ''
        if A is not None and A.shape[0] > 0:
            b = np.asarray(op.b, dtype=object).reshape(-1)
            assert A.shape[0] == len(b) == len(self.cType), ('row bookkeeping', A.shape, len(b), len(self.cType))
            assert A.shape[1] == self.n, ('columns', A.shape, self.n)
            for r in range(A.shape[0]):
                coefs = {}
                for j in range(self.n):
                    v = A[r, j]
                    if isinstance(v, Sym) or v != 0:
                        t = z3.simplify(lift(v))
                        if not is_zero_term(t):
                            coefs[j] = t
                self.rows.append((coefs, self.cType[r], z3.simplify(lift(b[r]))))
        self.mapping = op.mapping
        self.bools = set()
        mp = op.mapping
        if mp is not None and len(mp) and 'bool' in mp.columns:
            first = mp[~mp.index.duplicated(keep='first')]
            for i, flag in zip(first.index, first['bool']):
                if flag is True or flag == True:  # noqa: E712  (nan != True)
                    self.bools.add(int(i))
        self.map_nodal_restr = getattr(op, 'map_nodal_restr', None)

    # ---- variables
    def mk_x(self, prefix='x'):
        return [z3.Real('%s%d' % (prefix, i)) for i in range(self.n)]

    def var_keys(self):
        """meaning of each variable from the mapping: index -> (asset, var_name, time_step, node) of its first row"""
        keys = {}
        mp = self.mapping
        if mp is None or not len(mp):
            return keys
        for i, r in mp.iterrows():
            if int(i) in keys:
                continue
            node = r['node'] if isinstance(r.get('node'), str) else None
            keys[int(i)] = (r['asset'], str(r.get('var_name')), int(r['time_step']), node)
        return keys

    # ---- semantics
    def feas(self, x, bounds=True, rows=True, integrality=True):
        cs = []
        if bounds:
            for i in range(self.n):
                cs.append(self.l[i] <= x[i])
                cs.append(x[i] <= self.u[i])
        if integrality:
            for i in sorted(self.bools):
                cs.append(z3.Or(x[i] == 0, x[i] == 1))
        if rows:
            for coefs, ty, rhs in self.rows:
                cs.append(row_constraint(coefs, ty, rhs, x))
        return cs

    def row_lhs(self, r, x):
        coefs = self.rows[r][0]
        return lin(coefs, x)

    def val(self, x):
        terms = [self.c[i] * x[i] for i in range(self.n) if not is_zero_term(z3.simplify(self.c[i]))]
        return -z3.Sum(terms) if terms else ZERO


def lin(coefs, x):
    terms = [co * x[j] for j, co in coefs.items()]
    if not terms:
        return ZERO
    return z3.Sum(terms) if len(terms) > 1 else terms[0]


def row_constraint(coefs, ty, rhs, x):
    lhs = lin(coefs, x)
    if ty == 'U':
        return lhs <= rhs
    if ty == 'L':
        return lhs >= rhs
    if ty in ('S', 'N'):
        return lhs == rhs
    raise ValueError('unknown row type %r' % ty)


# ------------------------------------------------------------------------------------------------ queries
class Inconclusive(Exception):
    pass


class EnoughCandidates(BaseException):
    """a case has produced enough unlisted counterexample candidates: further paths/obligations add nothing to the verdict"""

    def __init__(self, rec):
        super().__init__('enough candidates')
        self.rec = rec


MAX_CANDIDATES_PER_CASE = 8


def _atomic_margin_constraint(goal, m):
    """for an atomic relational goal return the constraint 'goal is violated by at least m', else None"""
    if not z3.is_app(goal):
        return None
    k = goal.decl().kind()
    ch = goal.children()
    if len(ch) != 2 or not z3.is_arith(ch[0]):
        return None
    a, b = ch
    mv = z3.RealVal(str(Fraction(m).limit_denominator(10 ** 9)))
    if k == z3.Z3_OP_EQ:
        return z3.Or(a - b >= mv, b - a >= mv)
    if k == z3.Z3_OP_LE:
        return a - b >= mv
    if k == z3.Z3_OP_GE:
        return b - a >= mv
    if k == z3.Z3_OP_LT:
        return a - b >= mv
    if k == z3.Z3_OP_GT:
        return b - a >= mv
    return None


def _consts(e):
    out = set()
    stack = [e]
    while stack:
        t = stack.pop()
        if z3.is_const(t) and t.decl().kind() == z3.Z3_OP_UNINTERPRETED:
            out.add(t.decl().name())
        stack.extend(t.children())
    return out


def cvc5_verdict(smt2, timeout_ms=20000):
    """second opinion on one query: the cvc5 1.4 Python API parses z3's SMT-LIB2 export of the very same assertion set"""
    import cvc5
    slv = cvc5.Solver()
    slv.setOption('tlimit-per', str(timeout_ms))
    slv.setLogic('ALL')
    par = cvc5.InputParser(slv)
    par.setStringInput(cvc5.InputLanguage.SMT_LIB_2_6, smt2, 'q')
    sm = par.getSymbolManager()
    res = None
    while True:
        cmd = par.nextCommand()
        if cmd.isNull():
            break
        out = cmd.invoke(slv, sm).strip()
        if '(error' in out:
            return 'error'
        if out in ('sat', 'unsat', 'unknown'):
            res = out
    return res or 'unknown'


class Rec:
    """Per-case recorder: obligations with verdicts, twins, vacuity, candidate violations."""

    def __init__(self, prop, case_id, timeout_ms=60000):
        self.prop = prop
        self.case_id = case_id
        self.timeout_ms = timeout_ms
        self.obligations = []      # dict(name, verdict, secs, form)
        self.candidates = []       # dict(name, env, info)
        self.twins_ok = 0
        self.twins_bad = []
        self.vacuity_ok = 0
        self.vacuity_bad = []
        self.paths = 0
        self.rejected_paths = 0
        self.solver_s = 0.0
        self.samples = []
        self.notes = []
        self.known_hits = []       # (finding id, what)
        self.subtolerance = 0
        self.smt2_samples = []
        self.distinct = set()
        self.extra = {}
        self.validations = []      # requests for pristine shim validation
        self.pchecks = []          # obligations decided in the pristine interpreter (they need the real numeric solver)
        import os
        import random as _r
        # solver cross-check (DESIGN 4.5): a seeded sample of the queries is re-decided by cvc5 in the thorough tier
        self.xrate = float(os.environ.get('VERIF_XCHECK_RATE', '0.03' if os.environ.get('VERIF_TIER_ACTIVE') == 'thorough' else '0'))
        self.xrnd = _r.Random('%s/%s/%s' % (prop, case_id, os.environ.get('VERIF_SEED_ACTIVE', '0')))
        self.xstats = dict(agree=0, disagree=0, cvc5_unknown=0, skipped=0)

    # -- low level
    def _check(self, assume, extra, timeout_ms=None):
        t0 = time.time()
        s = z3.Solver()
        s.set('timeout', timeout_ms or self.timeout_ms)
        s.add(*assume)
        s.add(*extra)
        r = s.check()
        el = time.time() - t0
        self.solver_s += el
        if r != z3.unknown:
            self._xcheck(s, str(r), 'query')
        return r, s, el

    def _xcheck(self, solver, verdict, name):
        if self.xrate <= 0 or self.xrnd.random() >= self.xrate:
            return
        try:
            txt = solver.to_smt2()
            if 'exists' in txt or 'forall' in txt:
                self.xstats['skipped'] += 1
                return
            t0 = time.time()
            v2 = cvc5_verdict(txt)
            self.extra['cvc5_s'] = self.extra.get('cvc5_s', 0) + round(time.time() - t0, 3)
        except Exception as e:  # noqa: BLE001
            self.xstats['skipped'] += 1
            self.notes.append('cvc5 cross-check skipped for %s: %s' % (name, str(e)[:80]))
            return
        if v2 in ('unknown', 'error'):
            self.xstats['cvc5_unknown'] += 1
        elif v2 == verdict:
            self.xstats['agree'] += 1
        else:
            self.xstats['disagree'] += 1
            self.obligations.append(dict(name=name + '/cvc5_disagrees(z3=%s,cvc5=%s)' % (verdict, v2), verdict='unknown', secs=0, form='xcheck'))

    def vacuity(self, name, assume):
        """assumptions of an obligation family must be satisfiable; returns a model env or None"""
        r, s, _ = self._check(assume, [])
        if r == z3.sat:
            self.vacuity_ok += 1
            return s.model()
        self.vacuity_bad.append((name, str(r)))
        return None

    def twin(self, name, assume, absurd_goal):
        """reachability twin: the same assumptions with an absurd goal must come back violated (sat)"""
        r, s, _ = self._check(assume, [z3.Not(absurd_goal)])
        if r == z3.sat:
            self.twins_ok += 1
            return True
        self.twins_bad.append((name, str(r)))
        return False

    def prove(self, name, assume, goal, form='Q1', info=None, known=None, margin=True):
        """assume => goal for all values?  unsat -> discharged.  sat -> candidate (replayed by the caller's property
        module).  unknown -> Inconclusive (never a pass).  `known`: callable(model_env) -> finding id or None."""
        goal_n = z3.Not(goal)
        r, s, el = self._check(assume, [goal_n])
        if r == z3.unknown:
            # nonlinear with discount atoms: look for a counterexample at concrete discount rates first (a `sat` there is a
            # realistic witness; `unsat` there says nothing about other rates and is not used)
            pinned = self._sat_with_pinned_atoms(assume, goal_n)
            if pinned is not None:
                r, s = z3.sat, pinned
        if r == z3.unknown:
            # retry once with a fresh non-incremental nlsat/simplex pipeline and a longer budget
            t0 = time.time()
            s = z3.Then('simplify', 'solve-eqs', 'smt').solver()
            s.set('timeout', self.timeout_ms * 2)
            s.add(*assume); s.add(goal_n)
            r = s.check()
            el2 = time.time() - t0
            self.solver_s += el2
            el += el2
        verdict = str(r)
        entry = dict(name=name, verdict=verdict, secs=round(el, 4), form=form)
        if r == z3.sat:
            m = s.model()
            env = model_env(m)
            # margin: a violation below tolerance is outside the claim (IEEE vs exact), re-ask with a margin
            if margin:
                mc = _atomic_margin_constraint(goal, 1e-3)
                if mc is not None:
                    r2, s2, _ = self._check(assume, [goal_n, mc])
                    if r2 == z3.sat:
                        m = s2.model()
                        env = model_env(m)
                    elif r2 == z3.unsat:
                        entry['verdict'] = 'unsat'
                        entry['note'] = 'violated only below the 1e-3 margin (sub-tolerance)'
                        self.subtolerance += 1
                        self.obligations.append(entry)
                        self.distinct.add(name)
                        return True
            # power atoms are independent positive unknowns in the query (an over-approximation); for a replayable witness
            # pin the discount rate(s) to concrete values and the atoms to their true values
            env2 = self._realistic_atoms(assume, goal_n, goal if margin else None)
            if env2 is not None:
                env = env2
            cand = dict(name=name, env=env, info=info or {}, form=form)
            if known is not None:
                cand['known'] = known
            self.candidates.append(cand)
            if sum(1 for c in self.candidates if not c.get('known')) >= MAX_CANDIDATES_PER_CASE:
                self.obligations.append(entry)
                self.distinct.add(name)
                self.note('stopped after %d unlisted counterexample candidates (they are replayed; the remaining obligations of this case were not asked)' % MAX_CANDIDATES_PER_CASE)
                raise EnoughCandidates(self)
        elif r == z3.unknown:
            entry['verdict'] = 'unknown'
            self.unknowns = getattr(self, 'unknowns', 0) + 1
            if self.unknowns >= 4:
                self.obligations.append(entry)
                raise Inconclusive('4 queries of case %s came back unknown (last: %s); the case is abandoned as inconclusive' % (self.case_id, name))
        self.obligations.append(entry)
        self.distinct.add(name)
        if len(self.samples) < 3:
            self.samples.append(dict(case=self.case_id, obligation=name, form=form, verdict=entry['verdict'],
                                     goal=str(z3.simplify(goal))[:400]))
        return r == z3.unsat

    def _sat_with_pinned_atoms(self, assume, goal_n):
        from .sym import atom_info, evalf
        from fractions import Fraction
        info = atom_info()
        if not info:
            return None
        bases = set()
        for nm, (b, q) in info.items():
            bases |= _consts(b)
        for w in (Fraction(1, 4), Fraction(10, 1)):
            envw = {c: float(w) for c in bases}
            pin = [z3.Real(c) == z3.RealVal(str(w)) for c in bases]
            try:
                for nm, (b, q) in info.items():
                    v = float(evalf(b, envw)) ** float(q)
                    pin.append(z3.Real(nm) == z3.RealVal(str(Fraction(v).limit_denominator(10 ** 12))))
            except KeyError:
                return None
            r, s, _ = self._check(assume, [goal_n] + pin, timeout_ms=20000)
            if r == z3.sat:
                return s
        return None

    def _realistic_atoms(self, assume, goal_n, goal):
        from .sym import atom_info, evalf
        from fractions import Fraction
        info = atom_info()
        if not info:
            return None
        bases = set()
        for nm, (b, q) in info.items():
            for c in _consts(b):
                bases.add(c)
        if not bases:
            return None
        mc = _atomic_margin_constraint(goal, 1e-3) if goal is not None else None
        for w in (Fraction(1, 4), Fraction(1, 1), Fraction(7, 100), Fraction(10, 1)):
            pin = [z3.Real(c) == z3.RealVal(str(w)) for c in bases]
            envw = {c: float(w) for c in bases}
            try:
                for nm, (b, q) in info.items():
                    v = float(evalf(b, envw)) ** float(q)
                    pin.append(z3.Real(nm) == z3.RealVal(str(Fraction(v).limit_denominator(10 ** 12))))
            except KeyError:
                return None
            extra = [goal_n] + pin + ([mc] if mc is not None else [])
            r, s, _ = self._check(assume, extra)
            if r == z3.sat:
                return model_env(s.model())
        return None

    def prove_each(self, name, assume, goals, form='Q3', info=None, margin=True):
        """goals: list of (label, z3 Bool, extra info).  One shared (incremental) solver for the assumption set; a goal that
        does not come back unsat there is re-decided by prove() on a fresh solver (which also builds the candidate)."""
        t0 = time.time()
        s = z3.Solver()
        s.set('timeout', min(self.timeout_ms, 10000))     # goals not discharged quickly here get their own fresh solver in prove()
        s.add(*assume)
        ok = True
        self.solver_s += time.time() - t0
        for label, g, gi in goals:
            t1 = time.time()
            s.push()
            s.add(z3.Not(g))
            r = s.check()
            s.pop()
            el = time.time() - t1
            self.solver_s += el
            nm = '%s/%s' % (name, label)
            if r == z3.unsat:
                self.obligations.append(dict(name=nm, verdict='unsat', secs=round(el, 4), form=form))
                self.distinct.add(nm)
                if len(self.samples) < 3:
                    self.samples.append(dict(case=self.case_id, obligation=nm, form=form, verdict='unsat', goal=str(z3.simplify(g))[:400]))
            else:
                i2 = dict(info or {}); i2.update(gi or {})
                if not self.prove(nm, assume, g, form=form, info=i2, margin=margin):
                    ok = False
        return ok

    def prove_all(self, name, assume, goals, form='Q1', info=None, stop_on_fail=True):
        """goals: list of (label, z3 Bool); shared assumption set, one query each"""
        ok = True
        for label, g in goals:
            if not self.prove('%s/%s' % (name, label), assume, g, form=form, info=info):
                ok = False
                if stop_on_fail:
                    break
        return ok

    def note(self, s):
        self.notes.append(s)

    def result(self):
        from . import lift as _lift
        return dict(prop=self.prop, case=self.case_id, obligations=self.obligations,
                    candidates=[dict(name=c['name'], env=c['env'], info=c['info'], form=c['form'],
                                     known=c.get('known')) for c in self.candidates],
                    twins_ok=self.twins_ok, twins_bad=self.twins_bad, vacuity_ok=self.vacuity_ok,
                    vacuity_bad=self.vacuity_bad, paths=self.paths, rejected_paths=self.rejected_paths,
                    solver_s=self.solver_s, samples=self.samples, notes=self.notes, known_hits=self.known_hits,
                    subtolerance=self.subtolerance, functions=sorted(_lift.TRACED), extra=dict(self.extra, **{'cvc5_' + k: v for k, v in self.xstats.items()}),
                    validations=self.validations, pchecks=self.pchecks, distinct=len(self.distinct))


def fixed_env_constraints(env_exact):
    return [z3.Real(k) == z3.RealVal(str(v)) for k, v in env_exact.items() if not isinstance(v, bool)]
