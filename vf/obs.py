"""Observations: JSON-able views of problems and output tables, in lifted (Sym -> float under an assignment)
and concrete form, so that the two can be compared entry by entry."""
import math

import numpy as np
import pandas as pd

from .sym import Sym, SymBool, evalf


def to_jsonable(o, env=None, cache=None):
    """recursively convert to JSON-able python; Sym entries are evaluated under env"""
    if cache is None:
        cache = {}
    if isinstance(o, Sym):
        return float(evalf(o.e, env, cache))
    if isinstance(o, SymBool):
        return bool(evalf(o.e, env, cache))
    if o is None or isinstance(o, (str, bool)):
        return o
    if isinstance(o, (np.bool_,)):
        return bool(o)
    if isinstance(o, (int, np.integer)):
        return int(o)
    if isinstance(o, (float, np.floating)):
        f = float(o)
        return None if math.isnan(f) else f
    if isinstance(o, dict):
        return {str(k): to_jsonable(v, env, cache) for k, v in o.items()}
    if isinstance(o, (list, tuple)):
        return [to_jsonable(v, env, cache) for v in o]
    if isinstance(o, np.ndarray):
        return [to_jsonable(v, env, cache) for v in o.tolist()] if o.dtype != object else [to_jsonable(v, env, cache) for v in o]
    if isinstance(o, pd.DataFrame):
        return {str(c): to_jsonable(o[c].values, env, cache) for c in o.columns}
    if isinstance(o, pd.Series):
        return to_jsonable(o.values, env, cache)
    if isinstance(o, (pd.Timestamp,)):
        return str(o)
    try:
        import z3
        if z3.is_expr(o):
            v = evalf(o, env, cache)
            return bool(v) if isinstance(v, bool) else float(v)
    except ImportError:
        pass
    if hasattr(o, 'a') and hasattr(o, 'tolil'):       # shims.M
        return to_jsonable(o.a, env, cache)
    if hasattr(o, 'toarray'):
        return to_jsonable(np.asarray(o.toarray()), env, cache)
    return str(o)


def problem_obs(op):
    """canonical view of an OptimProblem (lifted or concrete)"""
    from .shims import to_dense
    A = to_dense(op.A)
    mp = op.mapping
    rows = []
    if mp is not None and len(mp):
        cols = [c for c in ['asset', 'node', 'type', 'var_name', 'time_step', 'disp_factor', 'bool'] if c in mp.columns]
        for i, r in zip(mp.index, mp[cols].itertuples(index=False)):
            d = {'index': int(i)}
            for c, v in zip(cols, r):
                if c in ('node',) and not isinstance(v, str):
                    v = None
                if c == 'bool':
                    v = bool(v) if v is True or v is False or isinstance(v, (bool, np.bool_)) else False
                if c == 'var_name':
                    v = str(v)
                d[c] = v
            rows.append(d)
    return dict(c=np.asarray(op.c, dtype=object), l=np.asarray(op.l, dtype=object), u=np.asarray(op.u, dtype=object),
                A=(A if A is not None and A.size else []), b=(np.asarray(op.b, dtype=object) if op.b is not None else []),
                cType=op.cType or '', mapping=rows,
                map_nodal_restr=[[int(t), str(n)] for t, n in (getattr(op, 'map_nodal_restr', None) or [])])


def output_obs(out):
    """extract_output tables -> dict of column -> list"""
    res = {}
    for k in ('dispatch', 'DCF', 'internal_variables', 'prices', 'special'):
        df = out.get(k)
        if df is None:
            res[k] = None
        else:
            res[k] = {str(c): list(df[c].values) for c in df.columns}
    s = out.get('summary')
    if isinstance(s, pd.DataFrame):
        res['summary'] = {str(i): s.loc[i, 'Values'] for i in s.index}
    else:
        res['summary'] = s
    return res
