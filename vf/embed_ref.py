"""Q3: optimal-value equivalence between the assembled EAO problem and the independent reference model, decided without
solving an LP by two embeddings (DESIGN section 3):
   EAO -> REF : every EAO-feasible x maps to a REF-feasible point of at least the same value   (=> opt REF >= opt EAO,
                and: every dispatch EAO can return is feasible for the reference)
   REF -> EAO : every REF-feasible point maps to an EAO-feasible x of at least the same value  (=> opt EAO >= opt REF)
Each target constraint is one query under a shared assumption set.
"""
import z3

from . import sym, lpsem, refmodel, refmap, lift, common
from .sym import lift as zl


def check(rec, P, D, path, sh, op, only=None, extra_info=None):
    """run both embeddings for one lifted path; returns (spec, R, lp)"""
    spec = refmap.spec_from_shape(sh)
    R = refmodel.build(spec)
    lp = lpsem.LP(op)
    x = lp.mk_x()
    base = list(D.pre) + path.pc + sym.atom_constraints()
    info = dict(extra_info or {})
    # ---------------- EAO -> REF
    F = lp.feas(x)
    if rec.vacuity(P + '/eao_feasible', base + F) is None:
        return spec, R, lp
    try:
        sub = refmap.to_ref(spec, R, lp, x)
        xt, missing = refmap.to_eao(spec, R, lp)
    except KeyError as e:
        # the assembled problem lacks a variable the inputs call for (e.g. an order or an active step without variable)
        nm = P + '/variables_by_meaning'
        rec.obligations.append(dict(name=nm, verdict='sat', secs=0, form='Q3'))
        rec.distinct.add(nm)
        rec.candidates.append(dict(name=nm, env=common.generic_point(base, D.names, 0) or {}, info=dict(info, kind='keys', missing=str(e)), form='struct'))
        return spec, R, lp
    goals = [(lab, z3.substitute(c, *sub), dict(dir='eao2ref', label=lab)) for lab, c in R.cons]
    obj_R = z3.substitute(R.obj, *sub)
    rec.twin(P + '/eao2ref', base + F, obj_R >= lp.val(x) + 1)
    if not objective_termwise(rec, P + '/eao2ref', base + F, R, lp, x, sub, 'eao2ref'):
        goals.append(('objective', obj_R >= lp.val(x), dict(dir='eao2ref', label='objective')))
    rec.prove_each(P + '/eao2ref', base + F, goals, form='Q3', info=info)
    # ---------------- REF -> EAO
    RC = R.all_constraints()
    if rec.vacuity(P + '/ref_feasible', base + RC) is None:
        return spec, R, lp
    xt, missing = refmap.to_eao(spec, R, lp)
    for i in missing:
        xt[i] = z3.RealVal(0)          # variables without reference counterpart (inert orders) are put to 0
    goals = []
    for i in range(lp.n):
        goals.append(('l[%d]' % i, lp.l[i] <= xt[i], dict(dir='ref2eao', label='l[%d]' % i)))
        goals.append(('u[%d]' % i, xt[i] <= lp.u[i], dict(dir='ref2eao', label='u[%d]' % i)))
    for i in sorted(lp.bools):
        goals.append(('int[%d]' % i, z3.Or(xt[i] == 0, xt[i] == 1), dict(dir='ref2eao', label='int[%d]' % i)))
    for r, (coefs, ty, rhs) in enumerate(lp.rows):
        goals.append(('row[%d]' % r, lpsem.row_constraint(coefs, ty, rhs, xt), dict(dir='ref2eao', label='row[%d]' % r)))
    if not objective_termwise(rec, P + '/ref2eao', base + RC, R, lp, xt, None, 'ref2eao'):
        goals.append(('objective', lp.val(xt) >= R.obj, dict(dir='ref2eao', label='objective')))
    rec.twin(P + '/ref2eao', base + RC, lp.val(xt) >= R.obj + 1)
    rec.prove_each(P + '/ref2eao', base + RC, goals, form='Q3', info=info)
    return spec, R, lp


def objective_termwise(rec, name, assume, R, lp, xe, sub, direction):
    """the objective inequality decomposed into one small inequality per (asset, step) -- per asset for storages and order books.
    Sufficient, not necessary: returns True only if every piece is discharged; otherwise the caller asks the global question."""
    import time as _t
    ref = {}
    for asset, t, term in R.obj_tagged:
        ref.setdefault((asset, t), []).append(z3.substitute(term, *sub) if sub else term)
    whole = {a for a, t in ref if t is None}
    eao = {}
    for i, (asset, vn, t, node) in lp.var_keys().items():
        key = (asset, None) if asset in whole else (asset, t)
        eao.setdefault(key, []).append(-lp.c[i] * xe[i])
    unmapped = [i for i in range(lp.n) if i not in lp.var_keys()]
    if any(not lpsem.is_zero_term(z3.simplify(lp.c[i])) for i in unmapped):
        return False
    s = z3.Solver()
    s.set('timeout', 5000)
    s.add(*assume)
    t0 = _t.time()
    ok = True
    n = 0
    for key in sorted(set(ref) | set(eao), key=str):
        r_ = z3.Sum(ref.get(key, [z3.RealVal(0)])) if len(ref.get(key, [])) != 1 else ref[key][0]
        e_ = z3.Sum(eao.get(key, [z3.RealVal(0)])) if len(eao.get(key, [])) != 1 else eao[key][0]
        goal = (r_ >= e_) if direction == 'eao2ref' else (e_ >= r_)
        s.push(); s.add(z3.Not(goal)); r = s.check(); s.pop()
        n += 1
        if r != z3.unsat:
            ok = False
            break
    rec.solver_s += _t.time() - t0
    if ok:
        nm = name + '/objective(termwise:%d pieces)' % n
        rec.obligations.append(dict(name=nm, verdict='unsat', secs=round(_t.time() - t0, 4), form='Q3'))
        rec.distinct.add(nm)
    return ok


def ref_optimum(R):
    """exact optimum of the reference at a concrete point (z3 Optimize over rationals); None if infeasible"""
    o = z3.Optimize()
    o.set('timeout', 60000)
    for c in R.all_constraints():
        o.add(c)
    h = o.maximize(R.obj)
    if o.check() != z3.sat:
        return None
    v = o.upper(h)
    from fractions import Fraction
    return float(Fraction(str(v)))


def observe(sh, op, env, rq):
    """pristine side: real optimum, exact reference optimum, and numeric evaluation of the violated goal at the witness"""
    import numpy as np
    from . import obs as _obs
    o = dict(problem=_obs.problem_obs(op))
    if rq.get('kind') != 'replay':
        return o
    spec = refmap.spec_from_shape(sh)
    R = refmodel.build(spec)
    lp = lpsem.LP(op)
    try:
        refmap.to_ref(spec, R, lp, lp.mk_x())
        refmap.to_eao(spec, R, lp)
        o['keys_error'] = None
    except KeyError as e:
        o['keys_error'] = str(e)
    res = op.optimize()
    o['eao_opt'] = None if isinstance(res, str) else float(res.value)
    o['eao_status'] = res if isinstance(res, str) else 'optimal'
    o['ref_opt'] = ref_optimum(R)
    info = rq.get('info', {})
    n = lp.n
    if info.get('dir') == 'eao2ref':
        from fractions import Fraction
        xv = [sym.ratval(Fraction(float(env.get('x%d' % i, 0.0)))) for i in range(n)]
        sub = refmap.to_ref(spec, R, lp, xv)
        x = [float(env.get('x%d' % i, 0.0)) for i in range(n)]
        from . import scen
        o['x_residual'] = scen.feasibility_residual(_obs.to_jsonable(o['problem']), x)
        if info.get('label') == 'objective':
            o['lhs'] = sym.evalf(z3.substitute(R.obj, *sub), {})
            o['rhs'] = sym.evalf(lp.val(xv), {})
        else:
            c = dict(R.cons)[info['label']]
            o['margin'] = _margin(z3.substitute(c, *sub), {})
    elif info.get('dir') == 'ref2eao':
        renv = {k: float(v) for k, v in env.items() if k.startswith('r_')}
        for nm, v in R.vars.items():
            renv.setdefault('r_' + nm, 0.0)
        o['ref_residual'] = max([0.0] + [_margin(c, renv) for c in R.all_constraints()])
        xt, missing = refmap.to_eao(spec, R, lp)
        for i in missing:
            xt[i] = z3.RealVal(0)
        x = [float(sym.evalf(t, renv)) for t in xt]
        from . import scen
        o['x_residual'] = scen.feasibility_residual(_obs.to_jsonable(o['problem']), x)
        o['lhs'] = float(-sum(float(c) * xi for c, xi in zip(np.asarray(op.c, dtype=float), x)))
        o['rhs'] = float(sym.evalf(R.obj, renv))
    return o


def _margin(c, env):
    """violation of a relational constraint under env (<= 0 means satisfied)"""
    k = c.decl().kind()
    ch = c.children()
    if k == z3.Z3_OP_OR or k == z3.Z3_OP_AND:
        ms = [_margin(x, env) for x in ch]
        return min(ms) if k == z3.Z3_OP_OR else max(ms)
    a, b = sym.evalf(ch[0], env), sym.evalf(ch[1], env)
    if k == z3.Z3_OP_LE:
        return a - b
    if k == z3.Z3_OP_GE:
        return b - a
    if k == z3.Z3_OP_EQ:
        return abs(a - b)
    raise NotImplementedError(str(c))


def judge(cand, ans, tol=1e-6):
    info = cand.get('info', {})
    if 'error' in ans:
        return None, ans['error']
    o = ans['obs']
    ev, rv = o.get('eao_opt'), o.get('ref_opt')
    scale = max(1.0, abs(ev or 0.0), abs(rv or 0.0))
    if (ev is None) != (rv is None):
        if o.get('eao_status') == 'optimal' or rv is not None:
            return True, 'feasibility differs: EAO %s, reference optimum %s' % (o.get('eao_status'), rv)
    if ev is not None and rv is not None and abs(ev - rv) > tol * scale:
        return True, 'optimal value EAO %.8g vs reference %.8g' % (ev, rv)
    if info.get('kind') == 'keys':
        return (o.get('keys_error') is not None), 'the assembled problem has no variable for %s, which the inputs call for' % o.get('keys_error')
    # the optima agree at this point; is the violated half itself real?
    if info.get('dir') == 'eao2ref':
        if o.get('x_residual', 1) > 1e-6:
            return False, 'witness x infeasible for the unshimmed problem'
        if info.get('label') == 'objective':
            bad = o['lhs'] < o['rhs'] - tol * max(1.0, abs(o['rhs']))
            return bad, 'EAO-feasible point of value %.8g maps to a reference point of value %.8g' % (o['rhs'], o['lhs'])
        bad = o.get('margin', 0) > tol * scale
        return bad, 'an EAO-feasible dispatch violates the reference constraint %s by %.6g' % (info.get('label'), o.get('margin', 0))
    if info.get('dir') == 'ref2eao':
        if o.get('ref_residual', 1) > 1e-6:
            return False, 'witness infeasible for the reference'
        if info.get('label') == 'objective':
            bad = o['lhs'] < o['rhs'] - tol * max(1.0, abs(o['rhs']))
            return bad, 'reference point of value %.8g maps to an EAO point of value %.8g' % (o['rhs'], o['lhs'])
        bad = o.get('x_residual', 0) > 1e-6
        return bad, 'a reference-feasible point is infeasible for EAO (%s, residual %.6g)' % (info.get('label'), o.get('x_residual', 0))
    return False, 'optima agree (%.8g)' % (ev if ev is not None else float('nan'))
