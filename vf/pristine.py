"""Entry point of the pristine interpreter: `python -m vf.pristine req.json ans.json` with VF_PRISTINE=1.
No shims are installed; eaopack runs on real numpy/scipy/cvxpy with ordinary floats."""
import importlib
import json
import sys
import traceback


def main():
    fi, fo = sys.argv[1], sys.argv[2]
    with open(fi) as f:
        job = json.load(f)
    from . import lift
    assert lift.PRISTINE, 'VF_PRISTINE=1 expected'
    lift.import_eao()
    lift.silence_prints()
    from .obs import to_jsonable
    answers = []
    for rq in job['requests']:
        a = dict(kind=rq['kind'], case=rq['case'], idx=rq['idx'])
        try:
            from . import common as _common
            mod, kw_ = _common.resolve(rq['prop'], rq['kwargs'])
            obs = mod.observe(rq['case'], kw_, rq['env'], rq)
            a['obs'] = to_jsonable(obs)
        except BaseException as e:  # noqa: BLE001
            a['error'] = '%s: %s' % (type(e).__name__, e)
            a['tb'] = traceback.format_exc()[-1500:]
        answers.append(a)
    with open(fo, 'w') as f:
        json.dump(answers, f)


if __name__ == '__main__':
    main()
