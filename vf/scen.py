"""Portfolio scenario used by most properties: build a catalogue portfolio with the real code, set up the (split)
problem, feed a solution vector x (symbolic, or concrete in pristine mode) to the real extract_output."""
import numpy as np
import z3

from . import lift, sym, lpsem, obs, common, shapes
from .sym import Sym


class Scenario:
    def __init__(self):
        self.sh = None; self.op = None; self.ops = None; self.x = None; self.out = None; self.value = None


def run(D, shape, kw=None, split=None, with_output=True, env=None, duals=False, prices_in_output=False, warmup=False):
    """the scenario itself -- identical code in lifted and pristine mode"""
    eao = lift.import_eao()
    kw = kw or {}
    sc = Scenario()
    sc.sh = sh = shapes.build_portfolio(D, shape, **kw)
    sc.blocks = []
    for a in sh.portf.assets:
        _record_blocks(a, sc.blocks)
    if warmup:
        # earlier calls on the very same portfolio and grid objects (their results are discarded)
        sh.portf.setup_optim_problem(sh.prices, sh.tg)
        sh.portf.create_cost_samples([sh.prices], sh.tg)
        del sc.blocks[:]
    if split is None:
        sc.op = op = sh.portf.setup_optim_problem(sh.prices, sh.tg)
        sc.ops = [op]
    else:
        import pandas as pd
        pr = sh.prices
        sc.op = op = sh.portf.setup_split_optim_problem(pd.DataFrame(pr) if not isinstance(pr, pd.DataFrame) else pr,
                                                         sh.tg, interval_size=split)
        sc.ops = list(op.ops)
    n = len(op.c)
    if D.symbolic:
        sc.x = common.sym_x(n)
        sc.value = Sym.var('value')
        nN = len(op.map_nodal_restr or [])
        dl = {'N': common.sym_x(nN, 'y')} if duals else None
    else:
        sc.x = common.concrete_x(env, n)
        sc.value = float(env.get('value', 0.0))
        nN = len(op.map_nodal_restr or [])
        dl = {'N': common.concrete_x(env, nN, 'y')} if duals else None
    if with_output:
        res = eao.optimization.Results(value=sc.value, x=sc.x, duals=dl)
        sc.out = eao.io.extract_output(sh.portf, op, res, sh.prices if prices_in_output else None)
    return sc


class _Snap:
    """copy of what an asset's own set-up returned (the portfolio later clears op.A)"""

    def __init__(self, name, op):
        self.asset = name
        self.c = np.array(op.c, dtype=object).copy(); self.l = np.array(op.l, dtype=object).copy()
        self.u = np.array(op.u, dtype=object).copy()
        self.A = op.A.copy() if op.A is not None else None
        self.b = np.array(op.b, dtype=object).copy() if op.b is not None else None
        self.cType = op.cType
        self.mapping = op.mapping.copy() if op.mapping is not None else None
        self.n = len(op.c)
        self.map_nodal_restr = None


def _record_blocks(a, log):
    """harness wrapper on the asset instance: remember what each set-up call of the asset returned, in call order.
    The portfolio concatenates the assets' variables in exactly this order, which gives every asset's variable block
    independently of the mapping."""
    orig = a.setup_optim_problem

    def rec(*args, **kw):
        r = orig(*args, **kw)
        costs_only = kw.get('costs_only', args[2] if len(args) > 2 else False)
        if not costs_only:
            log.append(_Snap(a.name, r))
        return r
    a.setup_optim_problem = rec


def lps(sc):
    """LP view(s) and the z3 variable vector split per sub-problem"""
    out = []
    off = 0
    for op in sc.ops:
        lp = lpsem.LP(op)
        xs = [sym.lift(v) for v in sc.x[off:off + lp.n]]
        out.append((lp, xs))
        off += lp.n
    return out


def feasible(sc):
    cs = []
    for lp, xs in lps(sc):
        cs += lp.feas(xs)
    return cs


def observation(sc):
    o = {}
    if len(sc.ops) == 1 and not hasattr(sc.op, 'ops'):
        o['problem'] = obs.problem_obs(sc.op)
    else:
        o['problems'] = [obs.problem_obs(op) for op in sc.ops]
        o['split_mapping'] = obs.problem_obs(_Fake(sc.op))['mapping']
    if sc.out is not None:
        o['output'] = obs.output_obs(sc.out)
    return o


class _Fake:
    def __init__(self, op):
        self.c = op.c; self.l = np.zeros(0); self.u = np.zeros(0); self.A = None; self.b = None; self.cType = ''
        self.mapping = op.mapping; self.map_nodal_restr = op.map_nodal_restr


def observe(case, kwargs, env, rq):
    """pristine side: same scenario on floats"""
    D = lift.Domain(theta=env)
    sc = run(D, kwargs['shape'], kwargs.get('kw'), kwargs.get('split'), kwargs.get('with_output', True), env=env,
             duals=kwargs.get('duals', False), prices_in_output=kwargs.get('prices_in_output', False), warmup=kwargs.get('warmup', False))
    return observation(sc)


def explore(shape, kw=None, split=None, level='A', with_output=True, duals=False, prices_in_output=False, cap=5000, warmup=False):
    def build(D):
        return run(D, shape, kw, split, with_output, duals=duals, prices_in_output=prices_in_output, warmup=warmup)
    return lift.explore_build(build, level=level, cap=cap)


def validation_request(rec, sc, D, path, seed, extra_assume=()):
    """queue a shim-validation point: a generic member of the path's region with a feasible x"""
    region = list(D.pre) + path.pc + sym.atom_constraints() + feasible(sc) + list(extra_assume)
    names = common.names_of(D, len(sc.x))
    env = common.generic_point(region, names, seed)
    if env is None:
        return False
    for nm in names:
        env.setdefault(nm, 0.0)
    env.setdefault('value', 0.0)
    lifted = obs.to_jsonable(observation(sc), env)
    rec.validations.append(dict(env=env, lifted=lifted))
    return True


def z3_feasible_region(problem, prefix='x'):
    """the feasible region of a CONCRETE problem observation (numbers produced by the unshimmed code) as z3 constraints over fresh reals;
    used by replays that have to decide 'no feasible point has ...' exactly.  Returns (xs, constraints)."""
    import z3
    from fractions import Fraction
    rv = lambda v: z3.RealVal(str(Fraction(float(v)).limit_denominator(10 ** 9)))
    n = len(problem['l'])
    xs = [z3.Real('%s%d' % (prefix, i)) for i in range(n)]
    cons = []
    for i in range(n):
        cons += [xs[i] >= rv(problem['l'][i]), xs[i] <= rv(problem['u'][i])]
    A, b, ct = problem['A'], problem['b'], problem['cType']
    for r in range(len(b)):
        terms = [rv(A[r][j]) * xs[j] for j in range(n) if A[r][j] != 0]
        lhs = z3.Sum(terms) if terms else z3.RealVal(0)
        cons.append(lhs <= rv(b[r]) if ct[r] == 'U' else (lhs >= rv(b[r]) if ct[r] == 'L' else lhs == rv(b[r])))
    for i in sorted({m['index'] for m in problem['mapping'] if m.get('bool')}):
        cons.append(z3.Or(xs[i] == 0, xs[i] == 1))
    return xs, cons


def feasibility_residual(problem, x, tol=1e-6):
    """max violation of bounds/rows of a concrete problem observation by x"""
    worst = 0.0
    l, u = problem['l'], problem['u']
    for i in range(len(l)):
        worst = max(worst, l[i] - x[i], x[i] - u[i])
    A, b, ct = problem['A'], problem['b'], problem['cType']
    for r in range(len(b)):
        lhs = sum(A[r][j] * x[j] for j in range(len(x)) if A[r][j] != 0)
        if ct[r] == 'U':
            worst = max(worst, lhs - b[r])
        elif ct[r] == 'L':
            worst = max(worst, b[r] - lhs)
        else:
            worst = max(worst, abs(lhs - b[r]))
    # booleans
    flagged = {m['index'] for m in problem['mapping'] if m.get('bool')}
    for i in flagged:
        worst = max(worst, min(abs(x[i]), abs(x[i] - 1)))
    return worst
