"""Pure-Python stand-in for the C json encoder/decoder inside the lifted interpreter (C11 only): a tree walker implementing
dumps(default=, sort_keys=) / loads(object_hook=) so that symbolic numeric leaves survive; the document is kept as a tree.
Contract: identity on str/int/float/bool/None, tuples -> lists, dict keys must be strings (sorted), anything else goes through
`default` exactly as the real encoder does.  Validated against the real json module on concrete objects on every run."""
import numpy as np

from .sym import Sym


class JsonDoc:
    def __init__(self, tree):
        self.tree = tree


def _enc(o, default, sort_keys):
    if o is None or isinstance(o, (str, bool)):
        return o
    if isinstance(o, Sym):
        return o
    if isinstance(o, (int, float)):          # incl. numpy.float64 (a float subclass); numpy integers are NOT int subclasses
        if isinstance(o, float) and not isinstance(o, np.floating):
            return o
        return float(o) if isinstance(o, float) else int(o)
    if isinstance(o, dict):
        for k in o:
            if not isinstance(k, (str, int, float, bool)) and k is not None:
                raise TypeError('keys must be str, int, float, bool or None, not %s' % type(k).__name__)
        items = sorted(o.items(), key=lambda kv: kv[0]) if sort_keys else list(o.items())
        return {str(k): _enc(v, default, sort_keys) for k, v in items}
    if isinstance(o, (list, tuple)):
        return [_enc(v, default, sort_keys) for v in o]
    if default is None:
        raise TypeError('Object of type %s is not JSON serializable' % type(o).__name__)
    return _enc(default(o), default, sort_keys)


def dumps(obj, indent=None, sort_keys=False, default=None, **kw):
    return JsonDoc(_enc(obj, default, sort_keys))


def _dec(t, hook):
    if isinstance(t, dict):
        d = {k: _dec(v, hook) for k, v in t.items()}
        return hook(d) if hook is not None else d
    if isinstance(t, list):
        return [_dec(v, hook) for v in t]
    return t


def loads(doc, object_hook=None, **kw):
    if isinstance(doc, JsonDoc):
        return _dec(doc.tree, object_hook)
    import json as _json
    return _json.loads(doc, object_hook=object_hook, **kw)


def dump(obj, fp, **kw):
    raise NotImplementedError('file output is outside the claim')


def load(fp, **kw):
    raise NotImplementedError('file input is outside the claim')
