"""Lifted execution: import eaopack from the repository's current working tree and make its module globals
carry symbolic scalars.  Nothing of EAO is transcribed: the function bodies that run are compiled from the
current source on every run.
"""
import ast
import importlib
import numpy as np
import os
import sys
import warnings

sys.dont_write_bytecode = True
warnings.simplefilter('ignore')

REPO = os.environ.get('EAO_REPO', '/repo')
PRISTINE = os.environ.get('VF_PRISTINE', '') == '1'

_installed = False
eao = None
MODS = ()
TRACED = set()


def repo_path():
    return REPO


def import_eao():
    """import eaopack from REPO (never from site-packages)"""
    global eao, MODS
    if eao is not None:
        return eao
    if REPO not in sys.path:
        sys.path.insert(0, REPO)
    import eaopack  # noqa
    assert os.path.realpath(eaopack.__file__).startswith(os.path.realpath(REPO)), eaopack.__file__
    import eaopack.assets, eaopack.portfolio, eaopack.optimization, eaopack.io  # noqa
    import eaopack.basic_classes, eaopack.stoch_lin_prog, eaopack.serialization  # noqa
    eao = eaopack
    MODS = (eaopack.assets, eaopack.portfolio, eaopack.optimization, eaopack.io, eaopack.basic_classes,
            eaopack.stoch_lin_prog, eaopack.serialization)
    _record_constructor_arguments()
    return eao


def fresh_import():
    """a second, independent instance of the repository's modules: module- and class-level state that earlier calls may have left behind
    (caches on classes, module globals) cannot reach objects created from it"""
    global eao, MODS, _installed
    for k in [k for k in sys.modules if k == 'eaopack' or k.startswith('eaopack.')]:
        del sys.modules[k]
    eao = None
    _installed = False
    return install()


# what the harness passed to the constructors of the asset classes (outermost call), kept OUTSIDE the objects: the reference model reads the
# user's inputs from here, not from the attributes an __init__ may have stored differently.  (object id -> (object, arguments))
CTOR_ARGS = {}


def ctor_arg(obj, name, default=None):
    rec = CTOR_ARGS.get(id(obj))
    if rec is not None and rec[0] is obj and name in rec[1]:
        return rec[1][name]
    return getattr(obj, name, default)


def _record_constructor_arguments():
    import inspect
    base = eao.assets.Asset
    depth = {}
    classes = [c for m in (eao.assets, eao.portfolio) for c in vars(m).values() if isinstance(c, type) and issubclass(c, base)]
    for cls in set(classes):
        orig = cls.__dict__.get('__init__')
        if orig is None or getattr(orig, '_vf_wrapped', False):
            continue
        sig = inspect.signature(orig)

        def mk(orig, sig):
            def init(self, *a, **k):
                outer = depth.get(id(self), 0) == 0
                depth[id(self)] = depth.get(id(self), 0) + 1
                args = None
                if outer:
                    try:
                        ba = sig.bind(self, *a, **k)
                        ba.apply_defaults()
                        args = dict(ba.arguments)
                        args.pop('self', None)
                        for extra in ('args', 'kwargs'):
                            if isinstance(args.get(extra), dict):
                                args.update(args.pop(extra))
                    except TypeError:
                        args = None
                try:
                    orig(self, *a, **k)
                finally:
                    depth[id(self)] -= 1
                    if outer:
                        depth.pop(id(self), None)
                        if args is not None:
                            CTOR_ARGS[id(self)] = (self, args)
            init._vf_wrapped = True
            init.__wrapped__ = orig
            return init
        cls.__init__ = mk(orig, sig)


def _print_guard_lines(mod):
    """line numbers of `if <test>:` statements whose body is only print(...) and which have no else"""
    src = open(mod.__file__).read()
    tree = ast.parse(src)
    lines = set()
    for node in ast.walk(tree):
        if isinstance(node, ast.If) and not node.orelse and node.body and all(
                isinstance(s, ast.Expr) and isinstance(s.value, ast.Call)
                and getattr(s.value.func, 'id', None) == 'print' for s in node.body):
            lines.update(range(node.test.lineno, node.test.end_lineno + 1))
    return lines


def install():
    """inject the shims (no-op in pristine mode)"""
    global _installed
    import_eao()
    if _installed or PRISTINE:
        return eao
    from . import shims, sym
    import pandas as pd
    np_, sp_ = shims.NP(), shims.SP()
    for m in MODS:
        if hasattr(m, 'np'):
            m.np = np_
        if hasattr(m, 'sp'):
            m.sp = sp_
        m.isinstance = sym.sym_isinstance
        m.max = sym.sym_max
        m.min = sym.sym_min
        m.print = lambda *a, **k: None
        sym.ORACLE.guards[m.__file__] = _print_guard_lines(m)
    _orig_interp = pd.DataFrame.interpolate

    def _interp(self, *a, **k):
        if any(self[c].dtype == object for c in self.columns):
            if not self.isna().any().any():
                return self
            # gaps in symbolic columns: linear interpolation in time between the neighbouring known rows (concrete index, symbolic values),
            # nearest known value beyond the ends -- what method='time', limit_direction='both' does
            if k.get('method', a[0] if a else None) != 'time':
                raise sym.Realisation('interpolate on symbolic column with gaps (method other than time)')
            if not isinstance(self.index, pd.DatetimeIndex):
                raise ValueError('time-weighted interpolation only works on Series or DataFrames with a DatetimeIndex')      # as pandas does
            from fractions import Fraction
            out = self.copy()
            ts = [int(t.value) for t in self.index]
            for c in self.columns:
                col = list(self[c].values)
                known = [i for i, v in enumerate(col) if not (isinstance(v, float) and v != v) and v is not None and not (v is pd.NaT)]
                if not known:
                    continue
                new = list(col)
                for i in range(len(col)):
                    if i in known:
                        continue
                    before = [j for j in known if j < i]
                    after = [j for j in known if j > i]
                    if before and after:
                        j0, j1 = before[-1], after[0]
                        w = Fraction(ts[i] - ts[j0], ts[j1] - ts[j0])
                        new[i] = col[j0] * float(1 - w) + col[j1] * float(w) if not isinstance(col[j0], sym.Sym) and not isinstance(col[j1], sym.Sym) \
                            else sym.Sym(sym.lift(col[j0]) * sym.ratval(1 - w) + sym.lift(col[j1]) * sym.ratval(w))
                    else:
                        new[i] = col[before[-1]] if before else col[after[0]]
                arr = np.empty(len(new), dtype=object)
                for i, v in enumerate(new):
                    arr[i] = v
                out[c] = arr
            return out
        return _orig_interp(self, *a, **k)
    pd.DataFrame.interpolate = _interp
    _installed = True
    return eao


def silence_prints():
    """pristine mode: keep the real code but drop its console noise"""
    import_eao()
    for m in MODS:
        m.print = lambda *a, **k: None


# ----------------------------------------------------------------------------- tracing of "functions encoded"
def _profiler(frame, event, arg):
    if event == 'call':
        co = frame.f_code
        fn = co.co_filename
        if 'eaopack' in fn and fn.startswith(REPO):
            TRACED.add('%s:%s' % (os.path.basename(fn), co.co_qualname if hasattr(co, 'co_qualname') else co.co_name))


class trace_functions:
    def __enter__(self):
        sys.setprofile(_profiler)
        return self

    def __exit__(self, *a):
        sys.setprofile(None)


# ----------------------------------------------------------------------------- value sources
class Domain:
    """Value source for shape builders.

    symbolic mode: V('size', lo=0) -> Sym var + precondition; concrete mode: the float recorded for that name.
    fix(name, value) returns the concrete value in both modes (coefficient parameters at Level A).
    """

    def __init__(self, theta=None, level='A'):
        self.theta = theta          # None -> symbolic
        self.pre = []
        self.names = []
        self.level = level
        self.fixed = {}

    @property
    def symbolic(self):
        return self.theta is None

    def __call__(self, name, lo=None, hi=None, lo_strict=None, hi_strict=None, ne=None):
        if self.theta is not None:
            return float(self.theta.get(name, 0.0))
        import z3
        from .sym import Sym, lift
        s = Sym.var(name)
        self.names.append(name)
        if lo is not None:
            self._add(s.e >= lift(lo))
        if hi is not None:
            self._add(s.e <= lift(hi))
        if lo_strict is not None:
            self._add(s.e > lift(lo_strict))
        if hi_strict is not None:
            self._add(s.e < lift(hi_strict))
        if ne is not None:
            self._add(s.e != lift(ne))
        return s

    def _add(self, cond):
        from .sym import ORACLE
        self.pre.append(cond)
        if ORACLE.active:
            ORACLE.solver.add(cond)

    def arr(self, prefix, n, **kw):
        import numpy as np
        if self.theta is not None:
            return np.array([float(self.theta.get('%s%d' % (prefix, i), 0.0)) for i in range(n)], dtype=float)
        a = np.empty(n, dtype=object)
        for i in range(n):
            a[i] = self(prefix + str(i), **kw)
        return a

    def coef(self, name, value, lo_strict=None, lo=None, hi=None):
        """coefficient parameter: symbolic at Level B, the given generic rational at Level A"""
        if self.theta is not None:
            return float(self.theta.get(name, value))
        if self.level == 'B':
            return self(name, lo=lo, hi=hi, lo_strict=lo_strict)
        self.fixed[name] = value
        return value

    def assume(self, cond):
        """extra precondition (SymBool / z3 Bool); ignored in concrete mode"""
        if self.theta is not None:
            return
        from .sym import SymBool
        self._add(cond.e if isinstance(cond, SymBool) else cond)


def explore_build(build, level='A', cap=5000):
    """Run build(D) under every feasible decision prefix; preconditions are those D hands out during the run.
    Returns list of (Path, Domain)."""
    from . import sym
    Ds = []

    def f():
        D = Domain(level=level)
        Ds.append(D)
        return build(D)
    paths = sym.explore(f, (), cap)
    assert len(paths) == len(Ds)
    return list(zip(paths, Ds))
