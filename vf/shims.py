"""Exact-arithmetic replacements for the few library entry points that cannot carry Sym objects.

Everything here is injected as a module global of the eaopack modules by vf.lift.install(); the names and their
contracts are listed in DESIGN.md section 2.2 and in every evidence file (SHIM_LIST).
"""
import builtins

import numpy as _np
import scipy.sparse as _sp
import z3

from .sym import Sym, Realisation, SymBool, lift, sym_max, sym_min

SHIM_LIST = [
    'np: proxy to real numpy; zeros/ones/empty(float) return object arrays of Python floats; isnan (Sym is never NaN); '
    'minimum/maximum build If-terms; all/any unchanged',
    'sp: dense object-matrix class M behind the scipy.sparse API used by EAO (lil_matrix, csr_matrix((v,(r,c))), coo_matrix, '
    'tril, eye, identity, diags, hstack, vstack, issparse)',
    'isinstance: a Sym counts as float',
    'max/min: If-terms when an argument is Sym',
    'print: no-op; print-only if-statements do not fork',
    'pd.DataFrame.interpolate: identity on object columns without gaps',
]


def has_sym(a):
    if isinstance(a, Sym):
        return True
    if isinstance(a, _np.ndarray) and a.dtype == object:
        return any(isinstance(v, Sym) for v in a.flat)
    return False


def _is_float_dtype(dtype):
    return dtype in (float, _np.float64, 'float', 'float64', None)


class NP:
    """module proxy for numpy"""
    ndarray = _np.ndarray

    def __getattr__(self, k):
        return getattr(_np, k)

    def zeros(self, shape, dtype=float, **kw):
        if _is_float_dtype(dtype):
            a = _np.empty(shape, dtype=object)
            a[...] = 0.0
            return a
        return _np.zeros(shape, dtype, **kw)

    def ones(self, shape, dtype=float, **kw):
        if _is_float_dtype(dtype):
            a = _np.empty(shape, dtype=object)
            a[...] = 1.0
            return a
        return _np.ones(shape, dtype, **kw)

    def empty(self, shape=None, dtype=float, **kw):
        if _is_float_dtype(dtype):
            a = _np.empty(shape, dtype=object)
            a[...] = float('nan')
            return a
        return _np.empty(shape, dtype, **kw)

    def full(self, shape, fill_value, dtype=None, **kw):
        if isinstance(fill_value, Sym) or has_sym(_np.asarray(fill_value, dtype=object)):
            a = _np.empty(shape, dtype=object)
            a[...] = fill_value
            return a
        return _np.full(shape, fill_value, dtype=dtype, **kw)

    def asarray(self, a, dtype=None, **kw):
        """float arrays with symbolic entries are object arrays in the lifted run: a request for dtype float keeps numpy's contract
        (an array that already has the requested type is returned AS IS, not copied; lists and the like give a new array)"""
        if dtype is not None and _is_float_dtype(dtype) and has_sym(_np.asarray(a, dtype=object)):
            if isinstance(a, _np.ndarray) and a.dtype == object:
                return a
            return _np.asarray(a, dtype=object)
        return _np.asarray(a, dtype=dtype, **kw) if dtype is not None else _np.asarray(a, **kw)

    def array(self, a, dtype=None, **kw):
        if dtype is not None and _is_float_dtype(dtype) and has_sym(_np.asarray(a, dtype=object)):
            return _np.array(a, dtype=object, **{k: v for k, v in kw.items() if k in ('copy', 'ndmin')})
        return _np.array(a, dtype=dtype, **kw) if dtype is not None else _np.array(a, **kw)

    def isnan(self, a):
        if isinstance(a, Sym):
            return False
        if isinstance(a, _np.ndarray) and a.dtype == object:
            out = _np.zeros(a.shape, dtype=bool)
            for idx, v in _np.ndenumerate(a):
                out[idx] = (not isinstance(v, Sym)) and (v != v)
            return out
        return _np.isnan(a)

    def isclose(self, a, b, rtol=1e-05, atol=1e-08, equal_nan=False):
        """numpy's definition |a - b| <= atol + rtol*|b|, elementwise; symbolic elements give symbolic truth values"""
        if not (has_sym(_np.asarray(a, dtype=object)) or has_sym(_np.asarray(b, dtype=object))):
            return _np.isclose(_np.asarray(a, dtype=float), _np.asarray(b, dtype=float), rtol=rtol, atol=atol, equal_nan=equal_nan)
        a, b = _np.broadcast_arrays(_np.asarray(a, dtype=object), _np.asarray(b, dtype=object))
        # the result is used as a mask (indexing, ~, &): every entry is decided here by the path oracle (entries that follow from the path condition
        # or are concrete do not fork)
        out = _np.empty(a.shape, dtype=bool)
        for idx in _np.ndindex(a.shape):
            out[idx] = bool(abs(a[idx] - b[idx]) <= atol + rtol * abs(b[idx]))
        return out if out.shape else bool(out[()])

    def allclose(self, a, b, rtol=1e-05, atol=1e-08, equal_nan=False):
        if _np.shape(a) != _np.shape(b):
            try:
                _np.broadcast_shapes(_np.shape(a), _np.shape(b))
            except ValueError:
                return _np.allclose(_np.zeros(_np.shape(a)), _np.zeros(_np.shape(b)))     # numpy's own error for incompatible shapes
        r = self.isclose(a, b, rtol=rtol, atol=atol, equal_nan=equal_nan)
        for v in _np.asarray(r, dtype=object).reshape(-1):
            if not bool(v):           # symbolic truth values are decided by the path oracle, first difference ends the scan
                return False
        return True

    def minimum(self, a, b):
        return self._elt(a, b, sym_min)

    def maximum(self, a, b):
        return self._elt(a, b, sym_max)

    def _elt(self, a, b, f):
        if not (has_sym(_np.asarray(a, dtype=object)) or has_sym(_np.asarray(b, dtype=object))):
            fn = _np.minimum if f is sym_min else _np.maximum
            for conv in (lambda v: v, lambda v: _np.asarray(v, dtype=float)):
                # numpy's own result first (integer inputs stay integers: the result may be used as an index); object arrays of plain floats second
                try:
                    r = fn(conv(a), conv(b))
                    if getattr(r, 'dtype', None) != object:
                        return r
                except (TypeError, ValueError):
                    pass
        a = _np.asarray(a, dtype=object)
        b = _np.asarray(b, dtype=object)
        bb = _np.broadcast(a, b)
        out = _np.empty(bb.shape, dtype=object)
        out.flat = [f(x, y) for x, y in bb]
        return out

    def ceil(self, a):
        return self._round(a, '__ceil__', _np.ceil)

    def floor(self, a):
        return self._round(a, '__floor__', _np.floor)

    def round(self, a, decimals=0, **kw):
        if decimals != 0 and has_sym(_np.asarray(a, dtype=object)):
            raise Realisation('round to decimals of symbolic values')
        return self._round(a, 'rint', _np.round)
    around = round
    round_ = round

    def rint(self, a, **kw):
        return self._round(a, 'rint', _np.rint)

    def _round(self, a, meth, f):
        # floor / ceil of symbolic values stay symbolic (z3 to_int); concrete values as numpy does (floats)
        if isinstance(a, Sym):
            r = getattr(a, meth)()
            return r if isinstance(r, Sym) else float(r)
        arr = _np.asarray(a)
        if arr.dtype == object and has_sym(arr):
            out = _np.empty(arr.shape, dtype=object)
            out.flat = [self._round(v, meth, f) for v in arr.flat]
            return out
        return f(a)

    def interp(self, x, xp, fp):
        if has_sym(_np.asarray(fp, dtype=object)):
            # piecewise linear interpolation with concrete abscissae, symbolic ordinates
            x = _np.asarray(x, dtype=float); xp = _np.asarray(xp, dtype=float)
            out = _np.empty(len(x), dtype=object)
            for i, xv in enumerate(x):
                if xv <= xp[0]:
                    out[i] = fp[0]
                elif xv >= xp[-1]:
                    out[i] = fp[-1]
                else:
                    j = int(_np.searchsorted(xp, xv, side='right') - 1)
                    w = (xv - xp[j]) / (xp[j + 1] - xp[j])
                    out[i] = fp[j] * (1 - w) + fp[j + 1] * w
            return out
        return _np.interp(x, xp, fp)


def _dense(x):
    """anything matrix-like -> 2-D object ndarray"""
    if isinstance(x, M):
        return x.a
    if _sp.issparse(x):
        x = x.toarray()
    x = _np.asarray(x)
    if x.dtype != object:
        a = _np.empty(x.shape, dtype=object)
        a[...] = x
        x = a
    if x.ndim == 1:
        x = x.reshape(1, -1)
    elif x.ndim == 0:
        x = x.reshape(1, 1)
    return x


def _zero(v):
    return (not isinstance(v, Sym)) and v == 0


class M:
    """dense object matrix standing in for a scipy sparse matrix"""
    __array_priority__ = 100
    __array_ufunc__ = None

    def __init__(self, a):
        self.a = a

    @staticmethod
    def of(x):
        if isinstance(x, M):
            return x
        if isinstance(x, tuple) and len(x) == 2 and all(isinstance(v, (int, _np.integer)) for v in x):
            a = _np.empty(x, dtype=object)
            a[...] = 0.0
            return M(a)
        return M(_dense(x).copy())

    @property
    def shape(self):
        return self.a.shape

    def __array__(self, dtype=None, copy=None):
        return self.a if dtype is None else self.a.astype(dtype)

    @property
    def ndim(self):
        return 2

    @property
    def T(self):
        return M(self.a.T.copy())

    def tolil(self): return self
    def tocsr(self): return self
    def tocsc(self): return self
    def tocoo(self): return self
    def copy(self): return M(self.a.copy())
    def toarray(self): return self.a.copy()
    def todense(self): return self.a.copy()
    def __neg__(self): return M(-self.a)

    def __mul__(self, o):
        if isinstance(o, M):
            raise NotImplementedError('M*M')
        if isinstance(o, _np.ndarray) and o.ndim >= 1:
            return self.a @ o
        return M(self.a * o)
    __rmul__ = __mul__

    def __truediv__(self, o): return M(self.a / o)
    def __add__(self, o): return M(self.a + _dense(o))
    def __sub__(self, o): return M(self.a - _dense(o))

    def __getitem__(self, k):
        if isinstance(k, tuple):
            k = tuple(kk.a if isinstance(kk, M) else kk for kk in k)
            if len(k) == 2:
                r, c = k
                r_s = isinstance(r, (int, _np.integer))
                c_s = isinstance(c, (int, _np.integer))
                if r_s and c_s:
                    return self.a[r, c]
                rows = _np.arange(self.a.shape[0])[r] if not r_s else _np.array([r])
                cols = _np.arange(self.a.shape[1])[c] if not c_s else _np.array([c])
                rows = _np.atleast_1d(rows); cols = _np.atleast_1d(cols)
                return M(self.a[_np.ix_(rows, cols)])
        elif isinstance(k, (int, _np.integer)):
            return M(self.a[k:k + 1, :])
        else:
            rows = _np.atleast_1d(_np.arange(self.a.shape[0])[k])
            return M(self.a[rows, :])
        raise IndexError(k)

    def __setitem__(self, k, v):
        if isinstance(v, M):
            v = v.a
        elif _sp.issparse(v):
            v = _dense(v)
        if isinstance(k, tuple) and len(k) == 2:
            r, c = k
            r_s = isinstance(r, (int, _np.integer))
            c_s = isinstance(c, (int, _np.integer))
            if r_s and c_s:
                if isinstance(v, _np.ndarray):
                    v = v.reshape(-1)[0]
                self.a[r, c] = v
                return
            _ia = lambda z: isinstance(z, (list, tuple, _np.ndarray)) and _np.asarray(z).dtype != bool and _np.asarray(z).ndim == 1
            if _ia(r) and _ia(c) and len(r) == len(c):
                # scipy / numpy semantics: two index arrays address element pairs (not the outer product); for a repeated pair the last value stays
                vv = _np.asarray(v, dtype=object).reshape(-1) if isinstance(v, (list, tuple, _np.ndarray)) else [v] * len(r)
                for i_ in range(len(r)):
                    self.a[int(r[i_]), int(c[i_])] = vv[i_] if len(vv) > 1 or len(r) == 1 else vv[0]
                return
            rows = _np.atleast_1d(_np.arange(self.a.shape[0])[r] if not r_s else _np.array([r]))
            cols = _np.atleast_1d(_np.arange(self.a.shape[1])[c] if not c_s else _np.array([c]))
            if isinstance(v, _np.ndarray):
                v = _np.asarray(v, dtype=object)
                if v.ndim == 1:
                    # scipy semantics: a 1-D value fills the selected row/column vector
                    v = v.reshape(len(rows), len(cols)) if v.size == len(rows) * len(cols) else v
                if v.ndim == 2 and v.shape != (len(rows), len(cols)) and v.size == len(rows) * len(cols):
                    v = v.reshape(len(rows), len(cols))
            self.a[_np.ix_(rows, cols)] = v
            return
        self.a[k] = v

    def sum(self, axis=None):
        if axis is None:
            return self.a.sum()
        r = self.a.sum(axis=axis)
        return M(r.reshape(-1, 1) if axis == 1 else r.reshape(1, -1))

    def __matmul__(self, x):
        if isinstance(x, M):
            return M(self.a @ x.a)
        return self.a @ x

    def dot(self, x):
        return self.__matmul__(x)

    def __iadd__(self, o):
        self.a = self.a + _dense(o)
        return self

    @property
    def rows(self):
        return [[j for j in range(self.a.shape[1]) if not _zero(self.a[i, j])] for i in range(self.a.shape[0])]

    @property
    def data(self):
        return [[self.a[i, j] for j in range(self.a.shape[1]) if not _zero(self.a[i, j])] for i in range(self.a.shape[0])]


class SP:
    def __getattr__(self, k):
        raise AttributeError('sp shim lacks ' + k)

    def issparse(self, x): return isinstance(x, M) or _sp.issparse(x)
    def lil_matrix(self, x, **kw): return M.of(x).copy()
    def coo_matrix(self, x, **kw): return M.of(x).copy()
    def csc_matrix(self, x, **kw): return M.of(x).copy()

    def csr_matrix(self, x, shape=None, **kw):
        if isinstance(x, tuple) and len(x) == 2 and isinstance(x[1], tuple):
            vals, (rows, cols) = x
            m = M.of(tuple(int(s) for s in shape))
            for v, r, c in zip(vals, rows, cols):
                m.a[int(r), int(c)] = m.a[int(r), int(c)] + v
            return m
        return M.of(x).copy()

    def tril(self, x, k=0): return M(_np.tril(_dense(x), k))

    def eye(self, n, m=None, **kw):
        return M.of(_np.eye(n, m))
    identity = eye

    def diags(self, diagonals, offsets=0, shape=None, **kw):
        """scipy.sparse.diags: one diagonal (sequence, offset) or several (list of sequences / scalars, list of offsets)"""
        several = not _np.isscalar(offsets)
        if not several:
            diagonals, offsets = [diagonals], [offsets]
        offsets = [int(o) for o in offsets]
        if len(diagonals) != len(offsets):
            raise ValueError('Different number of diagonals and offsets.')
        diagonals = [d if (_np.isscalar(d) or isinstance(d, Sym)) else _np.asarray(d, dtype=object) for d in diagonals]
        if shape is None:
            first = diagonals[0]
            if _np.isscalar(first) or isinstance(first, Sym):
                raise ValueError('shape must be given for scalar diagonals')
            n = len(first) + builtins.abs(offsets[0])
            shape = (n, n)
        rows, cols = int(shape[0]), int(shape[1])
        m = M.of((rows, cols))
        for d, k in zip(diagonals, offsets):
            length = builtins.max(0, builtins.min(rows + builtins.min(k, 0), cols - builtins.max(k, 0)))
            scalar = _np.isscalar(d) or isinstance(d, Sym)
            if not scalar and len(d) == 1 and length != 1:
                d, scalar = d[0], True
            if not scalar and len(d) != length:
                raise ValueError('Diagonal length (index %d: %d at offset %d) does not agree with array size (%d, %d).' % (0, len(d), k, rows, cols))
            for i in range(length):
                r, c = (i, i + k) if k >= 0 else (i - k, i)
                m.a[r, c] = m.a[r, c] + (d if scalar else d[i])
        return m

    def hstack(self, blocks, **kw):
        bl = [_dense(b) for b in blocks]
        h = builtins.max(b.shape[0] for b in bl)
        for b in bl:
            if b.shape[0] != h and b.size:
                raise ValueError('blocks have incompatible row dimensions: %s' % [x.shape for x in bl])      # as scipy does
        bl = [b if b.shape[0] == h else b.reshape(h, 0) for b in bl]
        return M(_np.hstack(bl))

    def vstack(self, blocks, **kw):
        bl = [_dense(b) for b in blocks]
        w = builtins.max(b.shape[1] for b in bl)
        for b in bl:
            if b.shape[1] != w and b.size:
                raise ValueError('blocks have incompatible column dimensions: %s' % [x.shape for x in bl])   # as scipy does
        bl = [b if b.shape[1] == w else b.reshape(0, w) for b in bl]
        return M(_np.vstack(bl))


def to_dense(A):
    """LP matrix (M, scipy sparse, ndarray, None) -> 2-D object/float ndarray or None"""
    if A is None:
        return None
    if isinstance(A, M):
        return A.a
    if _sp.issparse(A):
        return _np.asarray(A.toarray())
    return _np.asarray(A)
