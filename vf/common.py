"""Helpers shared by the property modules."""
import random
from fractions import Fraction

import numpy as np
import pandas as pd
import z3

from . import lift, sym, lpsem, obs
from .sym import Sym, lift as zl

REJECT_MARKERS = ('ill-posed', 'must be', 'must not', 'has to be', 'Cannot have', 'cannot', 'not implemented',
                  'mus be', 'needs to', 'not valid', 'Either time_already')


def is_rejection(exc):
    """the code rejecting an input (ValueError/AssertionError/NotImplementedError with a message) as opposed to a crash"""
    if isinstance(exc, (NotImplementedError,)):
        return True
    if isinstance(exc, (ValueError, AssertionError)):
        msg = str(exc)
        return any(m in msg for m in REJECT_MARKERS) and _raised_by_repo_code(exc)
    return False


def _raised_by_repo_code(exc):
    """the innermost frame is the repository's own code (its own raise / assert), not a library failing underneath it"""
    import os
    tb = exc.__traceback__
    if tb is None:
        return True
    while tb.tb_next is not None:
        tb = tb.tb_next
    fn = os.path.realpath(tb.tb_frame.f_code.co_filename)
    return fn.startswith(os.path.realpath(lift.repo_path()))


def sym_x(n, prefix='x'):
    a = np.empty(n, dtype=object)
    for i in range(n):
        a[i] = Sym.var('%s%d' % (prefix, i))
    return a


def concrete_x(env, n, prefix='x'):
    return np.array([float(env.get('%s%d' % (prefix, i), 0.0)) for i in range(n)], dtype=float)


def results_obj(value, x, duals=None):
    eao = lift.import_eao()
    return eao.optimization.Results(value=value, x=x, duals=duals)


def generic_point(assume, names, seed, tries_per_name=2):
    """a concrete point of the region {assume}: greedily pin symbols to 'generic' seeded rationals where consistent.
    Returns env {name: float} for all symbols occurring in the model, or None if the region is empty."""
    rnd = random.Random(seed)
    s = z3.Solver()
    s.set('timeout', 20000)
    s.add(*assume)
    if s.check() != z3.sat:
        return None
    pool = [Fraction(n, d) for n in range(1, 40) for d in (1, 2, 3, 4, 5, 7, 8)]
    for nm in names:
        v = z3.Real(nm)
        for _ in range(tries_per_name):
            cand = rnd.choice(pool) * rnd.choice([1, 1, 1, -1])
            s.push()
            s.add(v == z3.RealVal(str(cand)))
            if s.check() == z3.sat:
                break
            s.pop()
    if s.check() != z3.sat:
        return None
    return sym.model_env(s.model())


def names_of(D, n_x=0, prefix='x'):
    return list(D.names) + ['%s%d' % (prefix, i) for i in range(n_x)]


def raised_in_eao(exc):
    """does the traceback pass through the repository's code? (an exception raised purely inside the harness is a harness error)"""
    import os
    root = os.path.realpath(lift.repo_path())
    tb = exc.__traceback__
    while tb is not None:
        if os.path.realpath(tb.tb_frame.f_code.co_filename).startswith(root):
            return True
        tb = tb.tb_next
    return False


def crash_candidate(rec, name, path, D, info=None):
    """an exception on a feasible path inside the domain: candidate violation, replayed by building at a point of the path"""
    if not raised_in_eao(path.exc):
        raise RuntimeError('harness error (exception outside the repository code): %s: %s' % (type(path.exc).__name__, path.exc)) from path.exc
    env = generic_point(list(D.pre) + path.pc + sym.atom_constraints(), D.names, 0)
    rec.obligations.append(dict(name=name, verdict='sat', secs=0.0, form='crash'))
    rec.distinct.add(name)
    i = dict(info or {})
    i.update(crash='%s: %s' % (type(path.exc).__name__, str(path.exc)[:200]))
    rec.candidates.append(dict(name=name, env=env or {}, info=i, form='crash'))


def node_columns(pf):
    """output column labels of the dispatch table per node -- re-derived from portf.assets x a.nodes, independent of io.py"""
    cols = {}
    single = len(pf.nodes) == 1
    for a in pf.assets:
        for n in a.nodes:
            lab = a.name if single else '%s (%s)' % (a.name, n.name)
            if lab not in cols.setdefault(n.name, []):      # an asset listing a node twice has one column for it
                cols[n.name].append(lab)
    return cols


def z3sum(terms):
    terms = [zl(t) for t in terms]
    if not terms:
        return z3.RealVal(0)
    return z3.Sum(terms) if len(terms) > 1 else terms[0]


def feasible_region(D, path, lp, x):
    return list(D.pre) + list(path.pc) + sym.atom_constraints() + lp.feas(x)


def cell(df, t, col):
    return df[col].values[t]


def internal_step_conflicts(op):
    """independent evidence for the step an internal (boolean) variable belongs to: a row of the problem that contains exactly one
    internal variable and dispatch variables of a single step ties that internal variable to this step (capacity x on/off rows,
    charge/discharge mode rows).  Returns [(variable, step in the mapping, step of the dispatch variables in the row, row)]."""
    from .shims import to_dense
    mp = op.mapping
    if mp is None or not len(mp) or 'type' not in mp.columns:
        return []
    first = mp[~mp.index.duplicated(keep='first')]
    typ = {int(i): t for i, t in zip(first.index, first['type'])}
    steps = {}
    for i, t in zip(mp.index, mp['time_step']):
        steps.setdefault(int(i), set()).add(int(t))
    A = to_dense(op.A)
    out = []
    if A is None or not A.size:
        return out
    ct = op.cType or ''
    for r in range(A.shape[0]):
        if r < len(ct) and ct[r] == 'N':
            continue
        cols = [j for j in range(A.shape[1]) if isinstance(A[r, j], Sym) or A[r, j] != 0]
        internal = [j for j in cols if typ.get(j) == 'i']
        disp = [j for j in cols if typ.get(j) == 'd']
        if len(internal) != 1 or not disp:
            continue
        dsteps = set()
        for j in disp:
            dsteps |= steps.get(j, set())
        if len(dsteps) != 1:
            continue
        j = internal[0]
        if steps.get(j) != dsteps:
            out.append((j, sorted(steps.get(j, [])), sorted(dsteps), r))
    return out


def judge_internal_steps(problem):
    """replay of internal_step_conflicts on a concrete problem observation (unshimmed code)"""
    from types import SimpleNamespace
    mp = pd.DataFrame([{k: v for k, v in m.items() if k != 'index'} for m in problem['mapping']], index=[m['index'] for m in problem['mapping']])
    ns = SimpleNamespace(mapping=mp, A=np.array(problem['A'], dtype=object) if len(problem['A']) else None, cType=problem['cType'])
    conf = internal_step_conflicts(ns)
    if conf:
        return True, 'internal variable %s is mapped to step %s but switches dispatch variables of step %s (row %s)' % (conf[0][0], conf[0][1], conf[0][2], conf[0][3])
    return False, 'internal variables are mapped to the steps they act in on the unshimmed code'


def delegated(module, **args):
    """case keyword arguments that hand a case of one property to the machinery of another property's module (the owning property reports it)"""
    return dict(_delegate=module, args=args)


def resolve(prop, kwargs):
    """(module, keyword arguments) that decide a case: the property's own module, or the one a case is delegated to"""
    import importlib
    if isinstance(kwargs, dict) and '_delegate' in kwargs:
        return importlib.import_module('vf.props.' + kwargs['_delegate'].lower()), kwargs['args']
    return importlib.import_module('vf.props.' + prop.lower()), kwargs
