"""Symbolic scalars that flow through the real EAO code inside numpy object arrays.

Sym      -- wraps a z3 Real term; arithmetic builds terms, comparisons return SymBool.
SymBool  -- wraps a z3 Bool term; bool() asks the path oracle (the only place control flow can depend on a symbol).
ORACLE   -- re-execution path oracle (DFS over decision prefixes).
pw()     -- power atoms for discounting ((1+wacc)**(1/365), d**Dt): fresh positive reals keyed by (base, exponent).
evalf()  -- float evaluation of a term under a concrete assignment (used for shim validation and replay).
"""
import math
import sys
import numbers
from fractions import Fraction

import numpy as np
import z3


class Realisation(Exception):
    """A symbolic value reached a C boundary (float(), int(), index...). Always a harness error."""


class PathCapExceeded(Exception):
    pass


# --------------------------------------------------------------------------------------------- lifting
SNAP_DEN = 10 ** 6


def snap_fraction(f: float) -> Fraction:
    """float -> rational: the simplest fraction with denominator <= 1e6 if within 4 ulp, else the exact value."""
    ex = Fraction(f)
    sn = ex.limit_denominator(SNAP_DEN)
    if abs(sn - ex) <= 4 * Fraction(math.ulp(f)):
        return sn
    return ex


_RV_CACHE = {}


def ratval(fr: Fraction):
    r = _RV_CACHE.get(fr)
    if r is None:
        r = z3.RealVal(str(fr))
        if len(_RV_CACHE) < 200000:
            _RV_CACHE[fr] = r
    return r


def lift(v):
    """Python/numpy number or Sym -> z3 Real term; None if v is not a scalar number."""
    if isinstance(v, Sym):
        return v.e
    if isinstance(v, (bool, np.bool_)):
        return ratval(Fraction(int(v)))
    if isinstance(v, (int, np.integer)):
        return ratval(Fraction(int(v)))
    if isinstance(v, (float, np.floating)):
        f = float(v)
        if f != f or f in (float('inf'), float('-inf')):
            raise ValueError('nan/inf met a symbolic value')
        return ratval(snap_fraction(f))
    if isinstance(v, Fraction):
        return ratval(v)
    if z3.is_expr(v):
        return v
    return None


# --------------------------------------------------------------------------------------------- oracle
class PathOracle:
    """DFS over boolean decisions, re-execution based.

    decide(phi): if the path condition implies phi / not phi, answer without forking; otherwise follow the
    current decision prefix (default True), record the decision and add it to the path condition.
    """

    def __init__(self):
        self.solver = z3.Solver()
        self.prefix = []
        self.trace = []
        self.pos = 0
        self.pre = []
        self.guards = {}       # filename -> set(line numbers) of print-only `if` tests (no fork there)
        self.n_decide = 0
        self.n_solver_checks = 0
        self.active = False

    def begin(self, prefix, pre=()):
        self.prefix = list(prefix)
        self.trace = []
        self.pos = 0
        self.solver = z3.Solver()
        self.solver.set('timeout', 15000)      # an undecided branch condition is a harness error, never a hang
        self.pre = list(pre)
        if self.pre:
            self.solver.add(*self.pre)
        self.active = True

    def end(self):
        self.active = False

    def _in_print_guard(self):
        f = sys._getframe(2)
        while f is not None:
            fn = f.f_code.co_filename
            g = self.guards.get(fn)
            if g is not None:
                return f.f_lineno in g
            f = f.f_back
        return False

    def decide(self, expr):
        expr = z3.simplify(expr)
        if z3.is_true(expr):
            return True
        if z3.is_false(expr):
            return False
        if not self.active:
            raise Realisation('bool() of a symbolic condition outside an exploration: %s' % expr)
        if self.guards and self._in_print_guard():
            return False
        self.n_decide += 1
        s = self.solver
        s.push(); s.add(z3.Not(expr)); r_not = s.check(); s.pop()
        self.n_solver_checks += 1
        if r_not == z3.unsat:
            return True
        s.push(); s.add(expr); r_pos = s.check(); s.pop()
        self.n_solver_checks += 1
        if r_pos == z3.unsat:
            return False
        if r_not == z3.unknown or r_pos == z3.unknown:
            raise Realisation('path oracle: solver answered unknown on %s' % expr)
        if self.pos < len(self.prefix):
            v = self.prefix[self.pos]
        else:
            v = True
        self.pos += 1
        self.trace.append((expr, v))
        s.add(expr if v else z3.Not(expr))
        return v

    def path_condition(self):
        return [e if v else z3.Not(e) for e, v in self.trace]


ORACLE = PathOracle()


class Path:
    __slots__ = ('trace', 'result', 'exc', 'pc')

    def __init__(self, trace, result, exc):
        self.trace = trace
        self.result = result
        self.exc = exc
        self.pc = [e if v else z3.Not(e) for e, v in trace]


def explore(f, pre=(), cap=5000):
    """Run f() under every feasible decision prefix. Returns list[Path]. Exhaustive or raises PathCapExceeded."""
    stack = [[]]
    out = []
    while stack:
        pref = stack.pop()
        ORACLE.begin(pref, pre)
        res, exc = None, None
        try:
            res = f()
        except Realisation:
            ORACLE.end()
            raise
        except Exception as e:  # noqa: BLE001 - an exception on a feasible path is part of the result
            exc = e
        tr = list(ORACLE.trace)
        ORACLE.end()
        out.append(Path(tr, res, exc))
        if len(out) > cap:
            raise PathCapExceeded('more than %d paths' % cap)
        for k in range(len(pref), len(tr)):
            stack.append([v for _, v in tr[:k]] + [not tr[k][1]])
    return out


# --------------------------------------------------------------------------------------------- scalars
class SymBool:
    __slots__ = ('e',)
    __array_priority__ = 0

    def __init__(self, e):
        self.e = e

    def __bool__(self):
        return ORACLE.decide(self.e)

    @staticmethod
    def _b(o):
        if isinstance(o, SymBool):
            return o.e
        return z3.BoolVal(bool(o))

    def __and__(self, o):
        return SymBool(z3.And(self.e, SymBool._b(o)))
    __rand__ = __and__

    def __or__(self, o):
        return SymBool(z3.Or(self.e, SymBool._b(o)))
    __ror__ = __or__

    def __invert__(self):
        return SymBool(z3.Not(self.e))

    def __repr__(self):
        return 'SymBool(%s)' % self.e


_ATOMS = {}        # (base sexpr, Fraction exponent) -> z3 const
_ATOM_INFO = {}    # const name -> (base term, Fraction exponent)


def reset_atoms():
    _ATOMS.clear()
    _ATOM_INFO.clear()


def atom_constraints():
    """Side conditions of all power atoms created so far: positivity, and what the sign of the exponent and the position of the base
    relative to 1 imply (b = 1 -> 1;  b > 1: power > 1 for positive, < 1 for negative exponents;  b < 1 the other way round).
    Distinct atoms stay otherwise unrelated (an over-approximation, sound for unsat)."""
    out = []
    one = z3.RealVal(1)
    for n, (b, q) in _ATOM_INFO.items():
        a = z3.Real(n)
        out.append(a > 0)
        try:
            pos = Fraction(q) > 0
        except (TypeError, ValueError):
            continue
        out.append(z3.Implies(b == one, a == one))
        out.append(z3.Implies(b > one, (a > one) if pos else (a < one)))
        out.append(z3.Implies(b < one, (a < one) if pos else (a > one)))
    return out


def atom_info():
    return dict(_ATOM_INFO)


def pw(base, exponent: Fraction):
    """base ** exponent as a term. base: z3 Real term known positive in the domain; exponent rational."""
    exponent = Fraction(exponent)
    if exponent == 0:
        return ratval(Fraction(1))
    if exponent == 1:
        return base
    base = z3.simplify(base)
    if z3.is_rational_value(base):
        b = Fraction(base.numerator_as_long(), base.denominator_as_long())
        if exponent.denominator == 1 and abs(exponent.numerator) <= 64:
            return ratval(b ** int(exponent))
        if b == 1:
            return ratval(Fraction(1))
        if b > 0:
            # concrete base (pristine / concrete discount rate): the numeric power, as a close rational
            return ratval(Fraction(float(b) ** float(exponent)).limit_denominator(10 ** 15))
    # nested power: pw(pw(b,p),q) -> pw(b,p*q)
    if z3.is_const(base) and base.decl().name() in _ATOM_INFO:
        b0, p0 = _ATOM_INFO[base.decl().name()]
        return pw(b0, p0 * exponent)
    # 1/atom ** q  ->  atom ** -q   (so 1./d**x and (1/d)**x coincide)
    key = (base.sexpr(), exponent)
    a = _ATOMS.get(key)
    if a is None:
        name = 'pw!%d' % len(_ATOMS)
        a = z3.Real(name)
        _ATOMS[key] = a
        _ATOM_INFO[name] = (base, exponent)
    return a


def _snap_exp(v):
    if isinstance(v, Fraction):
        return v
    if isinstance(v, (int, np.integer)):
        return Fraction(int(v))
    f = float(v)
    return Fraction(f).limit_denominator(10 ** 9)


def _div(a, b):
    """a / b; division by a power atom becomes multiplication by the atom with negated exponent (keeps terms polynomial)."""
    if z3.is_const(b) and b.decl().kind() == z3.Z3_OP_UNINTERPRETED and b.decl().name() in _ATOM_INFO:
        b0, q0 = _ATOM_INFO[b.decl().name()]
        inv = pw(b0, -q0)
        if z3.is_rational_value(a) and a.numerator_as_long() == 1 and a.denominator_as_long() == 1:
            return inv
        return a * inv
    return a / b


class Sym:
    __slots__ = ('e',)

    def __hash__(self):
        # structural hash of the term (pandas group-by / drop_duplicates on object columns hash first and then compare with ==, which
        # goes through the path oracle)
        return self.e.hash()

    def __init__(self, e):
        self.e = e

    @staticmethod
    def var(name):
        return Sym(z3.Real(name))

    def _bin(self, o, f, r=False):
        oe = lift(o)
        if oe is None:
            return NotImplemented
        return Sym(f(oe, self.e) if r else f(self.e, oe))

    def __add__(self, o): return self._bin(o, lambda a, b: a + b)
    def __radd__(self, o): return self._bin(o, lambda a, b: a + b, True)
    def __sub__(self, o): return self._bin(o, lambda a, b: a - b)
    def __rsub__(self, o): return self._bin(o, lambda a, b: a - b, True)
    def __mul__(self, o): return self._bin(o, lambda a, b: a * b)
    def __rmul__(self, o): return self._bin(o, lambda a, b: a * b, True)
    def __truediv__(self, o): return self._bin(o, _div)
    def __rtruediv__(self, o): return self._bin(o, _div, True)
    def __neg__(self): return Sym(-self.e)
    def __pos__(self): return self

    def __bool__(self):
        # truth value of a number (numpy's .any() / .all(), `if x:`): non-zero -- decided by the path oracle like any comparison
        return ORACLE.decide(self.e != 0)
    def __abs__(self): return Sym(z3.If(self.e >= 0, self.e, -self.e))

    def __pow__(self, o):
        if isinstance(o, Sym):
            oe = z3.simplify(o.e)
            if not z3.is_rational_value(oe):
                raise Realisation('symbolic exponent')
            o = Fraction(oe.numerator_as_long(), oe.denominator_as_long())
        if isinstance(o, (np.ndarray, list, tuple)):
            return NotImplemented
        if not isinstance(o, (numbers.Real, Fraction, np.floating, np.integer)):
            return NotImplemented
        return Sym(pw(self.e, _snap_exp(o)))

    def __rpow__(self, o):
        raise Realisation('symbolic exponent')

    def _cmp(self, o, f):
        oe = lift(o)
        if oe is None:
            return NotImplemented
        return SymBool(f(self.e, oe))

    def __lt__(self, o): return self._cmp(o, lambda a, b: a < b)
    def __le__(self, o): return self._cmp(o, lambda a, b: a <= b)
    def __gt__(self, o): return self._cmp(o, lambda a, b: a > b)
    def __ge__(self, o): return self._cmp(o, lambda a, b: a >= b)
    def __eq__(self, o): return self._cmp(o, lambda a, b: a == b)
    def __ne__(self, o): return self._cmp(o, lambda a, b: a != b)

    def rint(self):
        """numpy's round-half-to-even, exactly"""
        s = z3.simplify(self.e)
        if z3.is_rational_value(s):
            return float(round(Fraction(s.numerator_as_long(), s.denominator_as_long())))
        h = self.e + z3.RealVal('1/2')
        r = z3.ToInt(h)
        return Sym(z3.ToReal(z3.If(z3.And(z3.IsInt(h), r % 2 == 1), r - 1, r)))

    def __round__(self, n=None):
        if n not in (None, 0):
            raise Realisation('round to decimals of a symbolic value')
        return self.rint()

    def __floor__(self):
        s = z3.simplify(self.e)
        if z3.is_rational_value(s):
            return Fraction(s.numerator_as_long(), s.denominator_as_long()).__floor__()
        return Sym(z3.ToReal(z3.ToInt(self.e)))          # z3's to_int is the floor of a real

    def __ceil__(self):
        s = z3.simplify(self.e)
        if z3.is_rational_value(s):
            return Fraction(s.numerator_as_long(), s.denominator_as_long()).__ceil__()
        return Sym(-z3.ToReal(z3.ToInt(-self.e)))

    def __float__(self):
        s = z3.simplify(self.e)
        if z3.is_rational_value(s):
            return float(Fraction(s.numerator_as_long(), s.denominator_as_long()))
        raise Realisation('float() of symbolic value %s' % s)

    def __int__(self):
        s = z3.simplify(self.e)
        if z3.is_rational_value(s) and s.denominator_as_long() == 1:
            return s.numerator_as_long()
        raise Realisation('int() of symbolic value %s' % s)

    __index__ = __int__

    def is_integer(self):
        s = z3.simplify(self.e)
        if z3.is_rational_value(s):
            return s.denominator_as_long() == 1
        raise Realisation('is_integer() of symbolic value %s' % s)

    def copy(self):
        return self

    def __repr__(self):
        return 'Sym(%s)' % z3.simplify(self.e)


def symarr(prefix, n):
    a = np.empty(n, dtype=object)
    for i in range(n):
        a[i] = Sym.var('%s%d' % (prefix, i))
    return a


def sym_max(*args, **kw):
    import builtins
    if len(args) == 1 and not kw:
        args = tuple(args[0])
    if kw or not any(isinstance(a, Sym) for a in args):
        return builtins.max(*args, **kw)
    r = args[0]
    for a in args[1:]:
        re_, ae = lift(r), lift(a)
        r = Sym(z3.If(re_ >= ae, re_, ae))
    return r


def sym_min(*args, **kw):
    import builtins
    if len(args) == 1 and not kw:
        args = tuple(args[0])
    if kw or not any(isinstance(a, Sym) for a in args):
        return builtins.min(*args, **kw)
    r = args[0]
    for a in args[1:]:
        re_, ae = lift(r), lift(a)
        r = Sym(z3.If(re_ <= ae, re_, ae))
    return r


def sym_isinstance(obj, cls):
    import builtins
    if type(obj) is Sym:
        cl = cls if builtins.isinstance(cls, tuple) else (cls,)
        return (float in cl) or (Sym in cl) or (object in cl) or (numbers.Number in cl) or (numbers.Real in cl)
    return builtins.isinstance(obj, cls)


# --------------------------------------------------------------------------------------------- evaluation
def frac_of(v):
    return Fraction(v.numerator_as_long(), v.denominator_as_long())


def evalf(expr, env, cache=None):
    """Evaluate a z3 Real/Bool term to float/bool under env: {const name: float}. Power atoms are computed
    from their definition (base ** exponent) so that the discount factors are the true ones."""
    if cache is None:
        cache = {}
    if not z3.is_expr(expr):
        if isinstance(expr, Sym):
            expr = expr.e
        elif isinstance(expr, SymBool):
            expr = expr.e
        else:
            return float(expr)
    stack = [expr]
    while stack:
        e = stack[-1]
        k = e.get_id()
        if k in cache:
            stack.pop()
            continue
        if z3.is_rational_value(e):
            cache[k] = e.numerator_as_long() / e.denominator_as_long()
            stack.pop()
            continue
        if z3.is_true(e):
            cache[k] = True; stack.pop(); continue
        if z3.is_false(e):
            cache[k] = False; stack.pop(); continue
        if z3.is_const(e) and e.decl().kind() == z3.Z3_OP_UNINTERPRETED:
            nm = e.decl().name()
            if nm in _ATOM_INFO:
                b, q = _ATOM_INFO[nm]
                bk = b.get_id()
                if bk not in cache:
                    stack.append(b)
                    continue
                cache[k] = float(cache[bk]) ** float(q)
            elif nm in env:
                v = env[nm]
                cache[k] = bool(v) if z3.is_bool(e) else float(v)
            else:
                raise KeyError('no value for symbol %s' % nm)
            stack.pop()
            continue
        ch = e.children()
        missing = [c for c in ch if c.get_id() not in cache]
        if missing:
            stack.extend(missing)
            continue
        v = [cache[c.get_id()] for c in ch]
        kind = e.decl().kind()
        if kind == z3.Z3_OP_ADD:
            r = math.fsum(v)
        elif kind == z3.Z3_OP_MUL:
            r = 1.0
            for t in v:
                r *= t
        elif kind == z3.Z3_OP_SUB:
            r = v[0] - math.fsum(v[1:])
        elif kind == z3.Z3_OP_UMINUS:
            r = -v[0]
        elif kind == z3.Z3_OP_DIV:
            r = v[0] / v[1] if v[1] != 0 else float('nan')
        elif kind == z3.Z3_OP_ITE:
            r = v[1] if v[0] else v[2]
        elif kind == z3.Z3_OP_LE:
            r = v[0] <= v[1]
        elif kind == z3.Z3_OP_LT:
            r = v[0] < v[1]
        elif kind == z3.Z3_OP_GE:
            r = v[0] >= v[1]
        elif kind == z3.Z3_OP_GT:
            r = v[0] > v[1]
        elif kind == z3.Z3_OP_EQ:
            r = v[0] == v[1]
        elif kind == z3.Z3_OP_DISTINCT:
            r = len(set(v)) == len(v)
        elif kind == z3.Z3_OP_AND:
            r = all(v)
        elif kind == z3.Z3_OP_OR:
            r = any(v)
        elif kind == z3.Z3_OP_NOT:
            r = not v[0]
        elif kind == z3.Z3_OP_IMPLIES:
            r = (not v[0]) or v[1]
        elif kind == z3.Z3_OP_TO_REAL:
            r = float(v[0])
        elif kind == z3.Z3_OP_POWER:
            r = v[0] ** v[1]
        else:
            raise NotImplementedError('evalf: operator %s' % e.decl().name())
        cache[k] = r
        stack.pop()
    return cache[expr.get_id()]


def model_env(model, extra_names=()):
    """z3 model -> {name: float or bool} for all declared consts (exact rationals rounded to nearest double)."""
    env = {}
    for d in model.decls():
        if d.arity() != 0:
            continue
        v = model[d]
        if z3.is_rational_value(v):
            env[d.name()] = v.numerator_as_long() / v.denominator_as_long()
        elif z3.is_algebraic_value(v):
            a = v.approx(20)
            env[d.name()] = a.numerator_as_long() / a.denominator_as_long()
        elif z3.is_true(v):
            env[d.name()] = True
        elif z3.is_false(v):
            env[d.name()] = False
    return env


def model_env_exact(model):
    env = {}
    for d in model.decls():
        if d.arity() != 0:
            continue
        v = model[d]
        if z3.is_rational_value(v):
            env[d.name()] = Fraction(v.numerator_as_long(), v.denominator_as_long())
        elif z3.is_true(v):
            env[d.name()] = True
        elif z3.is_false(v):
            env[d.name()] = False
    return env
