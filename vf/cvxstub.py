"""Recorder stub standing in for cvxpy inside the lifted interpreter (environment = nondeterministic stub, DESIGN 2.2).

It records the variable (shape, boolean index set), the constraints and the objective exactly as OptimProblem.optimize hands them
over, and `solve()` returns a *nondeterministic* outcome: the status is chosen by the harness, x.value / prob.value / dual_value
are fresh symbols.  What a real solver guarantees about them is the stated solver contract, which the harness adds as
assumptions to its queries -- it is validated on instances against the real cvxpy (C03, contract validation).
"""
import types

import numpy as np

from .sym import Sym

__version__ = '1.6.0'

# solver names optimize() may look up with getattr(CVX, solver)
CLARABEL = 'CLARABEL'; SCIPY = 'SCIPY'; SCS = 'SCS'; OSQP = 'OSQP'; SCIP = 'SCIP'; ECOS = 'ECOS'; GLPK = 'GLPK'; GLPK_MI = 'GLPK_MI'; CBC = 'CBC'; HIGHS = 'HIGHS'

STATE = types.SimpleNamespace(status='optimal', problems=[], tag=0, variables=[])


def reset(status='optimal'):
    STATE.status = status
    STATE.problems = []
    STATE.tag = 0
    STATE.variables = []


class Expr:
    """affine expression: list of rows, each row = (dict var_key -> coefficient, constant). var_key = (variable id, index)"""
    __array_ufunc__ = None
    __array_priority__ = 1000

    def __init__(self, rows, scalar=False):
        self.rows = rows
        self.scalar = scalar

    def __neg__(self):
        return Expr([({k: -v for k, v in co.items()}, -c0) for co, c0 in self.rows], self.scalar)

    def _cmp(self, op, other):
        return Constraint(op, self, other)

    def __le__(self, o): return self._cmp('<=', o)
    def __ge__(self, o): return self._cmp('>=', o)
    def __eq__(self, o): return self._cmp('==', o)
    __hash__ = None

    @property
    def T(self):
        return self

    def __sub__(self, o):
        if isinstance(o, Expr):
            assert len(o.rows) == len(self.rows)
            rows = []
            for (a, a0), (b, b0) in zip(self.rows, o.rows):
                d = dict(a)
                for k, v in b.items():
                    d[k] = d.get(k, 0) - v
                rows.append((d, a0 - b0))
            return Expr(rows, self.scalar)
        return NotImplemented


class Variable(Expr):
    _count = 0

    def __init__(self, shape, boolean=False, **kw):
        Variable._count += 1
        self.id = Variable._count
        if isinstance(shape, (int, np.integer)):
            shape = (int(shape),)
        self.shape = tuple(int(s) for s in shape)
        self.n = self.shape[0] if self.shape else 1
        self.boolean_arg = boolean
        self.boolean_idx = self._bool_indices(boolean)
        self.value = None
        STATE.variables.append(self)
        super().__init__([({(self.id, i): 1}, 0) for i in range(self.n)])

    def _bool_indices(self, boolean):
        if boolean is False or boolean is None:
            return []
        if boolean is True:
            return list(range(self.n))
        # cvxpy >= 1.6: tuple with one index array per dimension; older: list of index tuples
        if isinstance(boolean, tuple) and len(boolean) == 1:
            return [int(i) for i in boolean[0]]
        if isinstance(boolean, list):
            return [int(b[0]) for b in boolean]
        raise TypeError('boolean argument %r' % (boolean,))

    def __rmatmul__(self, A):
        A = np.asarray(A.a if hasattr(A, 'a') else (A.toarray() if hasattr(A, 'toarray') else A), dtype=object)
        if A.ndim == 1:
            assert A.shape[0] == self.n, (A.shape, self.n)
            return Expr([({(self.id, j): A[j] for j in range(self.n) if not _zero(A[j])}, 0)], scalar=True)
        assert A.shape[1] == self.n, (A.shape, self.n)
        return Expr([({(self.id, j): A[r, j] for j in range(self.n) if not _zero(A[r, j])}, 0) for r in range(A.shape[0])])


def _zero(v):
    return (not isinstance(v, Sym)) and v == 0


class Constraint:
    def __init__(self, op, lhs, rhs):
        self.op = op
        self.lhs = lhs
        self.rhs = rhs
        self.dual_value = None

    def rows(self):
        """list of (coef dict, op, rhs term/number or (coef dict) if the right side is an expression)"""
        out = []
        rhs = self.rhs
        if isinstance(rhs, Expr):
            assert len(rhs.rows) in (1, len(self.lhs.rows))
            for k, (co, c0) in enumerate(self.lhs.rows):
                rco, r0 = rhs.rows[k if len(rhs.rows) > 1 else 0]
                d = dict(co)
                for kk, v in rco.items():
                    d[kk] = d.get(kk, 0) - v
                out.append((d, self.op, r0 - c0))
            return out
        rv = np.asarray(rhs, dtype=object).reshape(-1)
        assert len(rv) in (1, len(self.lhs.rows)), (len(rv), len(self.lhs.rows))
        for k, (co, c0) in enumerate(self.lhs.rows):
            r_ = rv[k if len(rv) > 1 else 0]
            if isinstance(r_, float) and r_ in (float('inf'), float('-inf')):
                out.append((dict(co), self.op, r_))        # an infinite bound stays what it is (the solver sees "no limit")
            else:
                out.append((dict(co), self.op, r_ - c0))
        return out


class Maximize:
    def __init__(self, expr):
        self.expr = expr
        self.sense = 'max'


class Minimize:
    def __init__(self, expr):
        self.expr = expr
        self.sense = 'min'


class Problem:
    def __init__(self, objective, constraints=None):
        self.objective = objective
        self.constraints = list(constraints or [])
        self.status = None
        self.value = None
        self.solver = 'default'
        STATE.problems.append(self)

    def variables(self):
        seen = {}
        def visit(e):
            if isinstance(e, Variable):
                seen[e.id] = e
        for c in self.constraints:
            visit(c.lhs); visit(c.rhs)
        visit(self.objective.expr)
        return seen

    def solve(self, solver=None, **kw):
        self.solver = solver or 'default'
        self.status = STATE.status
        STATE.tag += 1
        tag = STATE.tag
        # nondeterministic outcome: fresh symbols for everything a solver reports
        for v in STATE.variables:
            if v.value is None:
                _assign(v, tag)
        for k, c in enumerate(self.constraints):
            m = len(c.lhs.rows)
            d = np.empty(m, dtype=object)
            for r in range(m):
                d[r] = Sym.var('dual%d_%d_%d' % (tag, k, r))
            c.dual_value = d
        self.value = Sym.var('probvalue%d' % tag)
        if self.status not in ('optimal', 'optimal_inaccurate'):
            self.value = None
        return self.value


_ALLVARS = {}


def _assign(v, tag):
    if v.value is None:
        a = np.empty(v.n, dtype=object)
        for i in range(v.n):
            a[i] = Sym.var('sol%d_%d_%d' % (tag, v.id, i))
        v.value = a
        v.solver_value = list(a)          # what the solver reported, kept apart from .value (which the code under test may overwrite in place)
    _ALLVARS[v.id] = v
